#!/bin/bash
# tools/try_seed.sh <seed-dir> <check-id> [<check-id>...]
# Confirms a seeded change (demo passes clean / fails patched, suite passes) in a
# scratch worktree, then applies it to /repo, runs the given checks, and undoes it.
set -u
export GOFLAGS=-mod=mod GOPROXY=off GOSUMDB=off GOTOOLCHAIN=local
seed="$1"; shift
demo_dir=$(python3 -c "import json,sys; print(json.load(open('$seed/meta.json')).get('demo_dir','.'))")
wt=$(mktemp -d /tmp/seedwt.XXXX); rmdir $wt
git -C /repo worktree add --detach $wt HEAD >/dev/null 2>&1
cp $seed/demo_test.go $wt/$demo_dir/zz_seed_demo_test.go
clean=$(cd $wt/$demo_dir && go test -vet=off -count=1 -run 'TestSeedDemo' . 2>&1 | tail -1)
(cd $wt && git apply $seed/patch.diff) || { echo "PATCH DOES NOT APPLY"; git -C /repo worktree remove --force $wt; exit 3; }
patched=$(cd $wt/$demo_dir && go test -vet=off -count=1 -run 'TestSeedDemo' . 2>&1 | tail -1)
rm $wt/$demo_dir/zz_seed_demo_test.go
suite=$(cd $wt && go build ./... && go test -vet=off -count=1 . ./pkg/binding ./pkg/handlers ./pkg/render 2>&1 | grep -c "^FAIL")
git -C /repo worktree remove --force $wt
echo "demo clean: $clean | demo patched: $patched | suite FAIL lines: $suite"
git -C /repo apply $seed/patch.diff || exit 3
for c in "$@"; do
  s=$(date +%s)
  (cd /verif && timeout 1500 ./bin/ruxsym check $c ${TIER:-quick} > /tmp/seed_chk_$c.out 2>&1); rc=$?
  echo "  check $c exit=$rc $(( $(date +%s)-s ))s: $(grep -c '^VIOLATION' /tmp/seed_chk_$c.out) violations, $(grep -c '^SPURIOUS' /tmp/seed_chk_$c.out) spurious, $(grep -c '^UNDISCHARGED' /tmp/seed_chk_$c.out) undischarged, $(grep -c 'VALIDATION-MISMATCH' /tmp/seed_chk_$c.out) mismatches"
  grep -A1 "^VIOLATION" /tmp/seed_chk_$c.out | head -4 | cut -c1-300
done
git -C /repo checkout -- .
git -C /repo status --short | head -3
