#!/usr/bin/env python3
# Regenerates /verif/MANIFEST.json from the table below (keeps it valid at all times).
import json, os
HERE = os.path.dirname(os.path.dirname(os.path.abspath(__file__)))
props = [json.loads(l) for l in open(os.path.join(HERE, "properties.jsonl"))]

TECH = "bounded symbolic execution of go/ssa + SMT (z3), counterexamples replayed natively"
NOTE = ("trusted: go/ssa construction, the engine's instruction semantics and intrinsic table (DESIGN.md §1.3), z3 4.8.12; "
        "bounds and assumptions are written into the evidence file by the run itself")

claimed = {
 "C01": "every byte of the request path is a solver variable; for each enumerated route table the returned route is proved equal to the specified winner (independent pattern-grammar oracle) for all paths up to the bound",
 "C02": "for each pattern, every path byte symbolic: the reported parameters are proved to be exactly the variable names, to substitute back to the path and to satisfy their regexes, with the cache off and on",
 "C07": "twin routers (cache off/on, capacity 0..2) driven by the same symbolic request history; every answer proved observationally equal, hits/misses/evictions decided by the solver through key aliasing",
 "C11": "formatPath/simpleFmtPath proved equal to an independent single-pass normaliser for all strings up to the bound; static route reached iff normal forms agree (with and without group prefix, strict on/off)",
 "C13": "method-name and variable-regex acceptance proved against their specifications for all byte strings up to the bound; catalogue of invalid definitions rejected; lookup on accepted tables proved panic-free for arbitrary method/path bytes under all option sets",
 "C14": "one LRU operation from an arbitrary valid cache state (constructed through the real code, symbolic aliasing keys) proved equal to a list model incl. representation invariant; router clause: entry present under method+path after a dynamic match and repeat served from cache",
 "C04": "registration programs (nested groups, Use at every point, route/later middleware, custom or default fallbacks) are executed on the real code and the handler trace of every request is proved equal to the onion trace computed from the program text; cursor arithmetic on chains up to 20; known finding D8 (int8 cursor overflow) reported as KNOWN-FINDING",
 "C05": "abort scenarios over all positions/times/APIs with a symbolic status code; one step of Next() from an arbitrary int8 cursor state (solver variable); long chains up to the registration limit; known finding D9 reported as KNOWN-FINDING",
 "C06": "decision list (direct, HEAD->GET, fallback route, 405 with exact allowed set, 404) proved against the independent pattern specification for all paths up to the bound over tables x 16 option sets, through QuickMatch and through ServeHTTP (status, Allow header); InterceptAll proved equal to a twin router queried with the target",
 "C08": "one operation of the response-writer state machine from an arbitrary valid state (status, length, ghost counters are solver variables; short writes and write errors symbolic) re-establishes the invariant and the per-operation post-conditions; K-operation sequences through a real request as cross-check",
 "C09": "every crash point of route/NotFound/NotAllowed chains x hook behaviours (symbolic status): containment, single hook run, recovered value, single commit with the hook's status, propagation without hook, and a following request observing a pristine context; PanicsHandler containment",
 "C10": "the pooled context is havocked field by field (cursor, status, length symbolic) and the first handler of the next request is proved to observe a pristine context for static, dynamic, 404 and 405 requests",
 "C12": "registration programs with nested/sibling groups, Use inside groups, Controller and symbolic group prefixes: every route's path and middleware list proved equal to what the program text prescribes, Group proved to restore prefix and middleware, probe paths proved to reach exactly the concatenated prefixes",
 "C15": "values of every variable are solver variables constrained only by the variable's regex: the built path is proved to route back to the same route with exactly those values, under all three argument styles, naming APIs and map orders; GetRoute returns the latest registration",
 "C16": "for sampled controller method sets (128 generated types, with/without Uses, 3 bases, 7 map orders) the registered table is proved equal to the documented one and every probe (symbolic tail, 8 methods) is proved to dispatch to the action the table gives",
 "C17": "request path bytes symbolic: every file access of StaticDir/StaticFiles/StaticFS/StaticFile is proved to go through the configured root or name the configured file; StaticFiles proved to serve exactly paths with an allowed extension",
 "C18": "decidable part: the source touched by binding.Auto (query/form/multipart/JSON/XML/none) is proved to follow the method and the media type for symbolic subtypes; successful bind implies validation ran when enabled; codec round-trips are explicitly outside the claim",
 "C19": "status symbolic, payload bytes symbolic: each helper/renderer proved to emit the given status, its documented Content-Type (unchanged when preset, pkg/render) and the given body / callback(E); Accept negotiation proved to pick the first supported type; encoder failures reported not panicked",
 "C20": "credentials and account map symbolic: downstream runs iff credentials are well-formed and accepted, else 401+challenge / 403; override value bytes symbolic: rewrite iff POST and upper(value) in {PUT,PATCH,DELETE}; wrapper lists compose outermost-first and obey abort",
 "C03": "two in-flight requests on every router shape: each conflicting pair of shared-memory accesses logged by the interpreter is a clock-variable query (program order, lock exclusion, same logical time) decided by the solver; all pairs proved ordered on the repaired tree; races found are replayed natively under the race detector with response comparison",
}
NA = {}
reasons_pending = "check under construction in this session (engine built, harness not yet registered)"

man = {
 "version": 1,
 "setup_cmd": "cd /verif/engine && GOFLAGS=-mod=mod GOPROXY=off GOSUMDB=off GOTOOLCHAIN=local go build -o /verif/bin/ruxsym .",
 "hooks": {"guard": "verif",
           "enable": "no source hooks: harnesses enter the build through go/packages and `go test -overlay` overlays (files /repo/**/zz_verif_*.go exist only virtually)",
           "baseline_off_cmd": "cd /repo && go build ./... && go test -vet=off -count=1 -timeout 25m ./...",
           "source_commits": [], "add_only": True},
 "engines": [{"name": "ruxsym", "path": "/verif/engine", "serves_properties": sorted(claimed),
              "kind_free_text": "bounded symbolic executor for go/ssa (adapted from x/tools go/ssa/interp) with an SMT-LIB2 back end (z3 -in, one process per worker), native replay of counterexamples via go test -overlay"}],
 "checks": [],
 "not_applicable": [],
 "notes": "see DESIGN.md; known_findings.json lists repaired (fixed:) and recorded defects",
}
for p in props:
    pid = p["id"]
    if pid in claimed:
        man["checks"].append({
            "property_id": pid,
            "quick_cmd": f"./check {pid} quick",
            "thorough_cmd": f"./check {pid} thorough",
            "evidence_file": f"/verif/evidence/{pid}.json",
            "replay_cmd_template": f"./check {pid} --replay {{path}}",
            "engine": "ruxsym",
            "level_claimed": {"category": "model_checking", "text": claimed[pid], "design_ref": f"DESIGN.md §4 {pid}"},
            "level_note": NOTE,
            "technique": TECH,
        })
    else:
        man["not_applicable"].append({"property_id": pid, "reason": NA.get(pid, reasons_pending) if 'NA' in globals() else reasons_pending})
json.dump(man, open(os.path.join(HERE, "MANIFEST.json"), "w"), indent=1)
print("claimed:", sorted(claimed), "not_applicable:", [x["property_id"] for x in man["not_applicable"]])
