package main

// More standard-library intrinsics, so that code a change may plausibly
// introduce (strings.Builder, sync.Once, sync/atomic, internal/bytealg
// primitives under interpreted strings/bytes functions) stays inside the
// encoding instead of ending a path as unsupported.

import (
	"fmt"
	"go/types"
	"strings"
	"unicode/utf8"
)

func builderBuf(fr *frame, p value) *value {
	pv, ok := p.(*value)
	if !ok || pv == nil {
		panic(rtErr("runtime error: invalid memory address or nil pointer dereference"))
	}
	st := (*pv).(structure)
	return &st[fieldIndex(recvElem(fr), "buf")]
}

func bytesToValues(ts *TermStore, v value) []value {
	switch x := v.(type) {
	case string, *symStr:
		bs := strBytes(ts, x)
		out := make([]value, len(bs))
		for i, b := range bs {
			out[i] = termByte(b)
		}
		return out
	case []value:
		return x
	}
	panic(engineErr{fmt.Sprintf("bytesToValues: %T", v)})
}

func valuesToStr(ts *TermStore, vs []value) value {
	bs := make([]*Term, len(vs))
	for i, v := range vs {
		bs[i] = toTerm(ts, v)
	}
	return mkStr(bs)
}

func init() {
	// ---- strings.Builder -------------------------------------------------
	appendBuf := func(fr *frame, p value, data []value) {
		cell := builderBuf(fr, p)
		cur, _ := (*cell).([]value)
		*cell = append(append([]value{}, cur...), data...)
	}
	intrinsics["(*strings.Builder).WriteString"] = func(fr *frame, args []value) value {
		d := bytesToValues(fr.ex().ts, args[1])
		appendBuf(fr, args[0], d)
		return tuple{len(d), iface{}}
	}
	intrinsics["(*strings.Builder).Write"] = func(fr *frame, args []value) value {
		d := bytesToValues(fr.ex().ts, args[1])
		appendBuf(fr, args[0], d)
		return tuple{len(d), iface{}}
	}
	intrinsics["(*strings.Builder).WriteByte"] = func(fr *frame, args []value) value {
		appendBuf(fr, args[0], []value{args[1]})
		return iface{}
	}
	intrinsics["(*strings.Builder).WriteRune"] = func(fr *frame, args []value) value {
		r, ok := args[1].(int32)
		if !ok {
			fr.ex().unsupported("strings.Builder.WriteRune of a symbolic rune")
		}
		d := bytesToValues(fr.ex().ts, string(utf8.AppendRune(nil, r)))
		appendBuf(fr, args[0], d)
		return tuple{len(d), iface{}}
	}
	intrinsics["(*strings.Builder).String"] = func(fr *frame, args []value) value {
		cur, _ := (*builderBuf(fr, args[0])).([]value)
		return valuesToStr(fr.ex().ts, cur)
	}
	intrinsics["(*strings.Builder).Len"] = func(fr *frame, args []value) value {
		cur, _ := (*builderBuf(fr, args[0])).([]value)
		return len(cur)
	}
	intrinsics["(*strings.Builder).Cap"] = intrinsics["(*strings.Builder).Len"]
	intrinsics["(*strings.Builder).Reset"] = func(fr *frame, args []value) value {
		*builderBuf(fr, args[0]) = []value(nil)
		return nil
	}
	intrinsics["(*strings.Builder).Grow"] = func(fr *frame, args []value) value { return nil }

	// ---- sync.Once --------------------------------------------------------
	intrinsics["(*sync.Once).Do"] = func(fr *frame, args []value) value {
		p := args[0].(*value)
		if fr.i.onces == nil {
			fr.i.onces = map[*value]bool{}
		}
		if fr.i.onces[p] {
			return nil
		}
		fr.i.onces[p] = true
		fr.i.logAccess(p, true, fr.caller)
		call(fr.i, fr, 0, args[1], nil)
		return nil
	}

	// ---- sync/atomic (sequentially: plain loads and stores) -----------------
	for _, ty := range []string{"Int32", "Int64", "Uint32", "Uint64", "Uintptr"} {
		t := ty
		intrinsics["sync/atomic.Load"+t] = func(fr *frame, args []value) value { return *(args[0].(*value)) }
		intrinsics["sync/atomic.Store"+t] = func(fr *frame, args []value) value { *(args[0].(*value)) = args[1]; return nil }
		intrinsics["sync/atomic.Add"+t] = func(fr *frame, args []value) value {
			p := args[0].(*value)
			pt := fr.fn.Signature.Params().At(0).Type()
			*p = binop(fr.ex(), addTok, mustDeref(pt), *p, args[1])
			return *p
		}
		intrinsics["sync/atomic.CompareAndSwap"+t] = func(fr *frame, args []value) value {
			p := args[0].(*value)
			pt := mustDeref(fr.fn.Signature.Params().At(0).Type())
			eq := equalsV(fr.ex(), pt, *p, args[1])
			if b, ok := eq.(bool); ok {
				if b {
					*p = args[2]
				}
				return b
			}
			if fr.ex().branch(eq.(*Term)) {
				*p = args[2]
				return true
			}
			return false
		}
	}
	atomicField := func(fr *frame, p value) *value {
		pv := p.(*value)
		if pv == nil {
			panic(rtErr("runtime error: invalid memory address or nil pointer dereference"))
		}
		st := (*pv).(structure)
		return &st[fieldIndex(recvElem(fr), "v")]
	}
	for _, ty := range []string{"Int32", "Int64", "Uint32", "Uint64", "Bool"} {
		t := ty
		intrinsics["(*sync/atomic."+t+").Load"] = func(fr *frame, args []value) value {
			v := *atomicField(fr, args[0])
			if t == "Bool" {
				if u, ok := v.(uint32); ok {
					return u != 0
				}
			}
			return v
		}
		intrinsics["(*sync/atomic."+t+").Store"] = func(fr *frame, args []value) value {
			c := atomicField(fr, args[0])
			if t == "Bool" {
				if b, ok := args[1].(bool); ok {
					if b {
						*c = uint32(1)
					} else {
						*c = uint32(0)
					}
					return nil
				}
				fr.ex().unsupported("atomic.Bool.Store of a symbolic value")
			}
			*c = args[1]
			return nil
		}
		if t != "Bool" {
			intrinsics["(*sync/atomic."+t+").Add"] = func(fr *frame, args []value) value {
				c := atomicField(fr, args[0])
				ft := recvElem(fr).Underlying().(*types.Struct).Field(fieldIndex(recvElem(fr), "v")).Type()
				*c = binop(fr.ex(), addTok, ft, *c, args[1])
				return *c
			}
		}
	}

	// ---- internal/bytealg ---------------------------------------------------
	intrinsics["internal/bytealg.IndexByteString"] = func(fr *frame, args []value) value { return symIndexByte(fr, args) }
	intrinsics["internal/bytealg.IndexByte"] = func(fr *frame, args []value) value {
		return symIndexByte(fr, []value{valuesToStr(fr.ex().ts, args[0].([]value)), args[1]})
	}
	intrinsics["internal/bytealg.IndexString"] = func(fr *frame, args []value) value { return symIndex(fr, args) }
	intrinsics["internal/bytealg.CountString"] = func(fr *frame, args []value) value {
		ts := fr.ex().ts
		bs := strBytes(ts, args[0])
		c := toTerm(ts, args[1])
		r := intTerm(ts, 0)
		for _, b := range bs {
			r = ts.Add(r, ts.Ite(ts.Eq(b, c), intTerm(ts, 1), intTerm(ts, 0)))
		}
		return termInt(r)
	}
	intrinsics["internal/bytealg.Equal"] = func(fr *frame, args []value) value {
		ts := fr.ex().ts
		return strEq(ts, &symStr{strBytes(ts, valuesToStr(ts, args[0].([]value)))}, valuesToStr(ts, args[1].([]value)))
	}
	intrinsics["internal/bytealg.MakeNoZero"] = func(fr *frame, args []value) value {
		n := int(fr.concInt(args[0], nil))
		sl := make([]value, n)
		for i := range sl {
			sl[i] = uint8(0)
		}
		return sl
	}
	intrinsics["internal/stringslite.HasPrefix"] = func(fr *frame, args []value) value { return symHasPrefix(fr, args) }
	intrinsics["internal/stringslite.HasSuffix"] = func(fr *frame, args []value) value { return symHasSuffix(fr, args) }
	intrinsics["internal/stringslite.IndexByte"] = func(fr *frame, args []value) value { return symIndexByte(fr, args) }
	intrinsics["internal/stringslite.Index"] = func(fr *frame, args []value) value { return symIndex(fr, args) }
	intrinsics["internal/stringslite.TrimPrefix"] = func(fr *frame, args []value) value { return symTrimPrefix(fr, args) }
	intrinsics["internal/stringslite.TrimSuffix"] = func(fr *frame, args []value) value { return symTrimSuffix(fr, args) }
	_ = strings.Builder{}
}

func init() {
	// sort.Slice / SliceStable: insertion sort driven by the target's less closure
	sortSlice := func(fr *frame, args []value) value {
		sl, ok := args[0].(iface).v.([]value)
		if !ok {
			fr.ex().unsupported("sort.Slice on a non-slice")
		}
		less := args[1]
		// sort a permutation of copies, calling less on the *current* slice contents
		for i := 1; i < len(sl); i++ {
			for j := i; j > 0; j-- {
				r := call(fr.i, fr, 0, less, []value{j, j - 1})
				var lt bool
				switch b := r.(type) {
				case bool:
					lt = b
				case *Term:
					lt = fr.ex().branch(b)
				}
				if !lt {
					break
				}
				if fr.i.conc != nil {
					fr.i.logAccess(&sl[j], true, fr.caller)
					fr.i.logAccess(&sl[j-1], true, fr.caller)
				}
				sl[j], sl[j-1] = sl[j-1], sl[j]
			}
		}
		return nil
	}
	intrinsics["sort.Slice"] = sortSlice
	intrinsics["sort.SliceStable"] = sortSlice
	// time: a fixed instant (the clock is not part of any property here)
	intrinsics["time.Now"] = func(fr *frame, args []value) value {
		return zero(fr.fn.Signature.Results().At(0).Type())
	}
	intrinsics["time.Since"] = func(fr *frame, args []value) value { return int64(0) }
	intrinsics["time.Sleep"] = func(fr *frame, args []value) value { return nil }
	intrinsics["runtime.Gosched"] = func(fr *frame, args []value) value { return nil }
}


// errors.Is without internal/reflectlite: identity on comparable dynamic
// types, then the Is / Unwrap methods of the chain (depth-bounded).
func errorsIs(fr *frame, err, target iface, depth int) bool {
	if depth > 32 {
		fr.ex().unsupported("errors.Is: chain deeper than 32")
	}
	if err.t == nil || target.t == nil {
		return err.t == nil && target.t == nil
	}
	if types.Comparable(target.t) && sameType(err.t, target.t) {
		switch eq := equalsV(fr.ex(), err.t, err.v, target.v).(type) {
		case bool:
			if eq {
				return true
			}
		default:
			fr.ex().unsupported("errors.Is: symbolic comparison")
		}
	}
	ms := fr.i.prog.MethodSets.MethodSet(err.t)
	if sel := ms.Lookup(nil, "Is"); sel != nil {
		if sig, ok := sel.Type().(*types.Signature); ok && sig.Params().Len() == 1 && sig.Results().Len() == 1 {
			if r, ok := callMethod(fr.i, fr, err, "Is", target).(bool); ok && r {
				return true
			}
		}
	}
	if sel := ms.Lookup(nil, "Unwrap"); sel != nil {
		sig, _ := sel.Type().(*types.Signature)
		if sig != nil && sig.Params().Len() == 0 && sig.Results().Len() == 1 {
			r := callMethod(fr.i, fr, err, "Unwrap")
			switch r := r.(type) {
			case iface:
				return errorsIs(fr, r, target, depth+1)
			case []value:
				for _, e := range r {
					if ei, ok := e.(iface); ok && errorsIs(fr, ei, target, depth+1) {
						return true
					}
				}
			}
		}
	}
	return false
}

func init() {
	intrinsics["errors.Is"] = func(fr *frame, args []value) value {
		return errorsIs(fr, args[0].(iface), args[1].(iface), 0)
	}
}
