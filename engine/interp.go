// Copyright 2013 The Go Authors. All rights reserved.
// Use of this source code is governed by a BSD-style
// license that can be found in the LICENSE file.
//
// Adapted from golang.org/x/tools/go/ssa/interp (v0.29.0): the SSA
// interpreter is turned into a symbolic executor.  Scalars may be SMT terms,
// branches on symbolic conditions fork (by re-execution along a decision
// prefix), Go run-time panics are ordinary paths, calls to functions in the
// intrinsic table are answered by hand-written semantics.

package main

import (
	"fmt"
	"go/token"
	"go/types"
	"runtime"
	"slices"
	"strings"

	"golang.org/x/tools/go/ssa"
)

type continuation int

const (
	kNext continuation = iota
	kReturn
	kJump
)

type interpreter struct {
	prog               *ssa.Program
	globals            map[*ssa.Global]*value
	sizes              types.Sizes
	ex                 *Exec
	runtimeErrorString types.Type
	pools              map[*value]*poolState
	syncMaps           map[*value]*omap
	decoderReaders     map[*value]value // reader handed to a (stubbed) decoder constructor
	validateFailed     bool // outcome of the last (stubbed) gookit/validate run
	ghost              map[string]value
	events             []evRec
	conc               *concState
	onces              map[*value]bool
	roCells            map[*value]bool
	depth              int
}

type deferred struct {
	fn    value
	args  []value
	instr *ssa.Defer
	tail  *deferred
}

type frame struct {
	i                *interpreter
	caller           *frame
	fn               *ssa.Function
	block, prevBlock *ssa.BasicBlock
	env              map[ssa.Value]value
	locals           []value
	defers           *deferred
	result           value
	panicking        bool
	panic            interface{}
	phitemps         []value
	cur              ssa.Instruction
}

func (fr *frame) get(key ssa.Value) value {
	switch key := key.(type) {
	case nil:
		return nil
	case *ssa.Function, *ssa.Builtin:
		return key
	case *ssa.Const:
		return constValue(key)
	case *ssa.Global:
		if r, ok := fr.i.globals[key]; ok {
			return r
		}
		// lazily allocate globals of packages whose init is not run
		cell := zero(mustDeref(key.Type()))
		if s := sentinelError(fr.i, key); s != nil {
			cell = s
		}
		if e := base64Global(key); e != nil {
			cell = e
		}
		fr.i.globals[key] = &cell
		return &cell
	}
	if r, ok := fr.env[key]; ok {
		return r
	}
	panic(engineErr{fmt.Sprintf("get: no value for %T: %v", key, key.Name())})
}

// sentinelError: package-level error variables of packages whose initialisers
// are not run (`var ErrX = errors.New(...)`, io.EOF) are distinct non-nil
// error values, as the standard library's convention has it.
var sentinelText = map[string]string{
	"net/http.ErrAbortHandler": "net/http: abort Handler",
	"io.EOF":                   "EOF",
	"context.Canceled":         "context canceled",
	"context.DeadlineExceeded": "context deadline exceeded",
	"io.ErrUnexpectedEOF":      "unexpected EOF",
	"net/http.ErrBodyNotAllowed": "http: request method or response status code does not allow body",
	"net/http.ErrHandlerTimeout": "http: Handler timeout",
	"net/http.ErrNoCookie":       "http: named cookie not present",
	"net/http.ErrServerClosed":   "http: Server closed",
	"net/http.ErrMissingFile":    "http: no such file",
	"net/http.ErrNotSupported":   "feature not supported",
}

func sentinelError(i *interpreter, g *ssa.Global) value {
	if g.Pkg == nil || strings.HasPrefix(g.Pkg.Pkg.Path(), ruxPath) {
		return nil
	}
	t := mustDeref(g.Type())
	if n, ok := t.(*types.Named); !ok || n.Obj().Name() != "error" || n.Obj().Pkg() != nil {
		return nil
	}
	if !strings.HasPrefix(g.Name(), "Err") && g.Name() != "EOF" && !(g.Pkg.Pkg.Path() == "context" && (g.Name() == "Canceled" || g.Name() == "DeadlineExceeded")) {
		return nil
	}
	full := g.Pkg.Pkg.Path() + "." + g.Name()
	msg, ok := sentinelText[full]
	if !ok {
		msg = full
	}
	return i.mkError(msg)
}

// control panics must never be intercepted by target defers.
func isControl(p interface{}) bool {
	switch p.(type) {
	case pathEnd, engineErr:
		return true
	case *runtime.TypeAssertionError:
		return true
	case string:
		return true
	}
	return false
}

func (fr *frame) runDefer(d *deferred) {
	var ok bool
	defer func() {
		if !ok {
			p := recover()
			if isControl(p) {
				panic(p)
			}
			fr.panicking = true
			fr.panic = p
		}
	}()
	call(fr.i, fr, d.instr.Pos(), d.fn, d.args)
	ok = true
}

func (fr *frame) runDefers() {
	for d := fr.defers; d != nil; d = d.tail {
		fr.runDefer(d)
	}
	fr.defers = nil
	if fr.panicking {
		panic(fr.panic)
	}
}

func lookupMethod(i *interpreter, typ types.Type, meth *types.Func) *ssa.Function {
	return i.prog.LookupMethod(typ, meth.Pkg(), meth.Name())
}

func (fr *frame) ex() *Exec { return fr.i.ex }

// concInt makes an integer value concrete (forking if it is symbolic).
func (fr *frame) concInt(v value, t types.Type) int64 {
	if tt, ok := v.(*Term); ok {
		_, signed, _ := basicInfo(t)
		return fr.ex().concretize(tt, signed)
	}
	return asInt64(v)
}

// index checks 0 <= idx < n (forking on a symbolic idx: in range / out of
// range) and returns the concrete index.
func (fr *frame) index(idx value, t types.Type, n int) int {
	if tt, ok := idx.(*Term); ok {
		ex := fr.ex()
		ts := ex.ts
		in := inRange(ts, tt, t, n)
		if !ex.branch(in) {
			panic(rtErr(fmt.Sprintf("runtime error: index out of range [symbolic] with length %d", n)))
		}
		// enumerate the in-range values
		conds := make([]*Term, n)
		for k := 0; k < n; k++ {
			conds[k] = ts.Eq(tt, ts.BV(tt.w, uint64(k)))
		}
		return ex.choose(conds)
	}
	k := asInt64(idx)
	if k < 0 || k >= int64(n) {
		panic(rtErr(fmt.Sprintf("runtime error: index out of range [%d] with length %d", k, n)))
	}
	return int(k)
}

// inRange: 0 <= idx < n for an index term of the static type t (n may exceed
// what the index type can represent).
func inRange(ts *TermStore, tt *Term, t types.Type, n int) *Term {
	_, signed, _ := basicInfo(t)
	if signed {
		if tt.w < 63 && n > (1<<uint(tt.w-1))-1 {
			return ts.Sle(ts.BV(tt.w, 0), tt)
		}
		return ts.And(ts.Sle(ts.BV(tt.w, 0), tt), ts.Slt(tt, ts.BV(tt.w, uint64(n))))
	}
	if tt.w < 64 && uint64(n) > mask(tt.w) {
		return ts.Bool(true)
	}
	return ts.Ult(tt, ts.BV(tt.w, uint64(n)))
}

// tableLookup: reading a table of concrete scalars at a symbolic index yields
// an ite-chain over the distinct element values instead of a fork per index.
// The result is the address of a read-only temporary cell.
func (fr *frame) tableLookup(elems []value, idx *Term, it types.Type) (*value, bool) {
	if len(elems) <= 8 {
		return nil, false
	}
	ex := fr.ex()
	ts := ex.ts
	groups := map[value][]int{}
	var order []value
	for k, e := range elems {
		switch e.(type) {
		case bool, int, int8, int16, int32, int64, uint, uint8, uint16, uint32, uint64, uintptr:
		default:
			return nil, false
		}
		if _, ok := groups[e]; !ok {
			order = append(order, e)
		}
		groups[e] = append(groups[e], k)
	}
	if len(order) > 16 {
		return nil, false
	}
	if !ex.branch(inRange(ts, idx, it, len(elems))) {
		panic(rtErr(fmt.Sprintf("runtime error: index out of range [symbolic] with length %d", len(elems))))
	}
	// the most frequent value is the default of the chain
	def := order[0]
	for _, v := range order {
		if len(groups[v]) > len(groups[def]) {
			def = v
		}
	}
	res := toTerm(ts, def)
	for _, v := range order {
		if v == def {
			continue
		}
		var alts []*Term
		for _, k := range groups[v] {
			alts = append(alts, ts.Eq(idx, ts.BV(idx.w, uint64(k))))
		}
		res = ts.Ite(ts.Or(alts...), toTerm(ts, v), res)
	}
	var cell value = res
	if res.IsConst() {
		cell = def
	}
	if fr.i.roCells == nil {
		fr.i.roCells = map[*value]bool{}
	}
	p := &cell
	fr.i.roCells[p] = true
	return p, true
}

func visitInstr(fr *frame, instr ssa.Instruction) continuation {
	ex := fr.i.ex
	ex.ninstr++
	if ex.ninstr > ex.maxInstr {
		ex.stats.UnwindFails++
		panic(pathEnd{"instruction budget exhausted (unwinding bound)"})
	}
	fr.cur = instr
	switch instr := instr.(type) {
	case *ssa.DebugRef:
		// no-op

	case *ssa.UnOp:
		x := fr.get(instr.X)
		if instr.Op == token.MUL && fr.i.conc != nil {
			if p, ok := x.(*value); ok {
				fr.i.logAccessDeep(mustDeref(instr.X.Type()), p, false, fr)
			}
		}
		fr.env[instr] = unop(ex, instr, x)

	case *ssa.BinOp:
		fr.env[instr] = binop(ex, instr.Op, instr.X.Type(), fr.get(instr.X), fr.get(instr.Y))

	case *ssa.Call:
		fn, args := prepareCall(fr, &instr.Call)
		fr.env[instr] = call(fr.i, fr, instr.Pos(), fn, args)

	case *ssa.ChangeInterface:
		fr.env[instr] = fr.get(instr.X)

	case *ssa.ChangeType:
		fr.env[instr] = fr.get(instr.X)

	case *ssa.Convert:
		fr.env[instr] = conv(ex, instr.Type(), instr.X.Type(), fr.get(instr.X))

	case *ssa.SliceToArrayPointer:
		fr.env[instr] = sliceToArrayPointer(instr.Type(), instr.X.Type(), fr.get(instr.X))

	case *ssa.MakeInterface:
		fr.env[instr] = iface{t: instr.X.Type(), v: fr.get(instr.X)}

	case *ssa.Extract:
		fr.env[instr] = fr.get(instr.Tuple).(tuple)[instr.Index]

	case *ssa.Slice:
		var lo, hi, max value
		if instr.Low != nil {
			lo = int(fr.concInt(fr.get(instr.Low), instr.Low.Type()))
		}
		if instr.High != nil {
			hi = int(fr.concInt(fr.get(instr.High), instr.High.Type()))
		}
		if instr.Max != nil {
			max = int(fr.concInt(fr.get(instr.Max), instr.Max.Type()))
		}
		fr.env[instr] = slice(fr.get(instr.X), lo, hi, max)

	case *ssa.Return:
		switch len(instr.Results) {
		case 0:
		case 1:
			fr.result = fr.get(instr.Results[0])
		default:
			var res []value
			for _, r := range instr.Results {
				res = append(res, fr.get(r))
			}
			fr.result = tuple(res)
		}
		fr.block = nil
		return kReturn

	case *ssa.RunDefers:
		fr.runDefers()

	case *ssa.Panic:
		panic(targetPanic{fr.get(instr.X)})

	case *ssa.Send:
		ex.unsupported("channel send")

	case *ssa.Store:
		if fr.i.roCells != nil && fr.i.roCells[fr.get(instr.Addr).(*value)] {
			panic(engineErr{"store through a symbolic table index"})
		}
		if fr.i.conc != nil {
			fr.i.logAccessDeep(mustDeref(instr.Addr.Type()), fr.get(instr.Addr).(*value), true, fr)
		}
		store(mustDeref(instr.Addr.Type()), fr.get(instr.Addr).(*value), fr.get(instr.Val))

	case *ssa.If:
		succ := 1
		switch c := fr.get(instr.Cond).(type) {
		case bool:
			if c {
				succ = 0
			}
		case *Term:
			if ex.branch(c) {
				succ = 0
			}
		default:
			panic(engineErr{fmt.Sprintf("If on %T", c)})
		}
		fr.prevBlock, fr.block = fr.block, fr.block.Succs[succ]
		return kJump

	case *ssa.Jump:
		fr.prevBlock, fr.block = fr.block, fr.block.Succs[0]
		return kJump

	case *ssa.Defer:
		fn, args := prepareCall(fr, &instr.Call)
		defers := &fr.defers
		if into := fr.get(instr.DeferStack); into != nil {
			defers = into.(**deferred)
		}
		*defers = &deferred{fn: fn, args: args, instr: instr, tail: *defers}

	case *ssa.Go:
		ex.unsupported("go statement")

	case *ssa.MakeChan:
		fr.env[instr] = make(chan value, asInt64(fr.get(instr.Size)))

	case *ssa.Alloc:
		var addr *value
		if instr.Heap {
			addr = new(value)
			fr.env[instr] = addr
			if fr.i.conc != nil {
				fr.i.noteAlloc(addr)
			}
		} else {
			addr = fr.env[instr].(*value)
		}
		*addr = zero(mustDeref(instr.Type()))

	case *ssa.MakeSlice:
		n := fr.concInt(fr.get(instr.Len), instr.Len.Type())
		c := fr.concInt(fr.get(instr.Cap), instr.Cap.Type())
		if n < 0 || c < n || c > 1<<24 {
			panic(rtErr("runtime error: makeslice: len out of range"))
		}
		sl := make([]value, c)
		tElt := instr.Type().Underlying().(*types.Slice).Elem()
		for i := range sl {
			sl[i] = zero(tElt)
		}
		fr.env[instr] = sl[:n]
		if fr.i.conc != nil {
			fr.i.noteAllocSlice(sl)
		}

	case *ssa.MakeMap:
		m := makeMap(instr.Type().Underlying().(*types.Map).Key())
		fr.env[instr] = m
		if fr.i.conc != nil {
			fr.i.noteAlloc(m)
		}

	case *ssa.Range:
		if m, ok := fr.get(instr.X).(*omap); ok && fr.i.conc != nil {
			fr.i.logAccess(m, false, fr)
		}
		fr.env[instr] = rangeIter(ex, fr.get(instr.X), instr.X.Type())

	case *ssa.Next:
		fr.env[instr] = fr.get(instr.Iter).(iter).next()

	case *ssa.FieldAddr:
		p := fr.get(instr.X).(*value)
		if p == nil {
			panic(rtErr("runtime error: invalid memory address or nil pointer dereference"))
		}
		fr.env[instr] = &(*p).(structure)[instr.Field]

	case *ssa.Field:
		fr.env[instr] = fr.get(instr.X).(structure)[instr.Field]

	case *ssa.IndexAddr:
		x := fr.get(instr.X)
		idx := fr.get(instr.Index)
		switch x := x.(type) {
		case []value:
			if it, ok := idx.(*Term); ok {
				if p, ok := fr.tableLookup(x, it, instr.Index.Type()); ok {
					fr.env[instr] = p
					break
				}
			}
			fr.env[instr] = &x[fr.index(idx, instr.Index.Type(), len(x))]
		case *value: // *array
			if x == nil {
				panic(rtErr("runtime error: invalid memory address or nil pointer dereference"))
			}
			a := (*x).(array)
			if it, ok := idx.(*Term); ok {
				if p, ok := fr.tableLookup(a, it, instr.Index.Type()); ok {
					fr.env[instr] = p
					break
				}
			}
			fr.env[instr] = &a[fr.index(idx, instr.Index.Type(), len(a))]
		default:
			panic(engineErr{fmt.Sprintf("unexpected x type in IndexAddr: %T", x)})
		}

	case *ssa.Index:
		x := fr.get(instr.X)
		idx := fr.get(instr.Index)
		switch x := x.(type) {
		case array:
			fr.env[instr] = x[fr.index(idx, instr.Index.Type(), len(x))]
		case string, *symStr:
			fr.env[instr] = strIndex(fr, x, idx, instr.Index.Type())
		default:
			panic(engineErr{fmt.Sprintf("unexpected x type in Index: %T", x)})
		}

	case *ssa.Lookup:
		x := fr.get(instr.X)
		switch x.(type) {
		case string, *symStr:
			fr.env[instr] = strIndex(fr, x, fr.get(instr.Index), instr.Index.Type())
		default:
			if m, ok := x.(*omap); ok && fr.i.conc != nil {
				fr.i.logAccess(m, false, fr)
			}
			fr.env[instr] = lookup(ex, instr, x, fr.get(instr.Index))
		}

	case *ssa.MapUpdate:
		m := fr.get(instr.Map)
		key := fr.get(instr.Key)
		v := fr.get(instr.Value)
		switch m := m.(type) {
		case *omap:
			if m == nil {
				panic(rtErr("assignment to entry in nil map"))
			}
			if fr.i.conc != nil {
				fr.i.logAccess(m, true, fr)
			}
			m.insert(ex, key, v)
		default:
			panic(engineErr{fmt.Sprintf("illegal map type: %T", m)})
		}

	case *ssa.TypeAssert:
		fr.env[instr] = typeAssert(fr.i, instr, fr.get(instr.X).(iface))

	case *ssa.MakeClosure:
		var bindings []value
		for _, binding := range instr.Bindings {
			bindings = append(bindings, fr.get(binding))
		}
		fr.env[instr] = &closure{instr.Fn.(*ssa.Function), bindings}

	case *ssa.Phi:
		panic(engineErr{"unreachable phi"})

	case *ssa.Select:
		ex.unsupported("select")

	default:
		panic(engineErr{fmt.Sprintf("unexpected instruction: %T", instr)})
	}
	return kNext
}

// strIndex returns s[idx]; a symbolic index yields an ite-chain after the
// bounds check (no fork per position).
func strIndex(fr *frame, s value, idx value, it types.Type) value {
	ex := fr.ex()
	ts := ex.ts
	bs := strBytes(ts, s)
	n := len(bs)
	if tt, ok := idx.(*Term); ok {
		_, signed, _ := basicInfo(it)
		var in *Term
		if signed {
			in = ts.And(ts.Sle(ts.BV(tt.w, 0), tt), ts.Slt(tt, ts.BV(tt.w, uint64(n))))
		} else {
			in = ts.Ult(tt, ts.BV(tt.w, uint64(n)))
		}
		if !ex.branch(in) {
			panic(rtErr(fmt.Sprintf("runtime error: index out of range [symbolic] with length %d", n)))
		}
		r := bs[n-1]
		for k := n - 2; k >= 0; k-- {
			r = ts.Ite(ts.Eq(tt, ts.BV(tt.w, uint64(k))), bs[k], r)
		}
		return termByte(r)
	}
	k := asInt64(idx)
	if k < 0 || k >= int64(n) {
		panic(rtErr(fmt.Sprintf("runtime error: index out of range [%d] with length %d", k, n)))
	}
	return termByte(bs[k])
}

func prepareCall(fr *frame, call *ssa.CallCommon) (fn value, args []value) {
	v := fr.get(call.Value)
	if call.Method == nil {
		fn = v
	} else {
		recv := v.(iface)
		if recv.t == nil {
			panic(rtErr("runtime error: invalid memory address or nil pointer dereference (method on nil interface)"))
		}
		if _, isRT := recv.v.(rtype); isRT {
			fn = &rtypeMethod{call.Method.Name()}
		} else if ho, isHost := recv.v.(*hostObj); isHost && recv.t == hostIfaceT {
			fn = &hostMethod{ho, call.Method.Name()}
		} else if f := lookupMethod(fr.i, recv.t, call.Method); f == nil {
			panic(engineErr{fmt.Sprintf("method set for dynamic type %v does not contain %s", recv.t, call.Method)})
		} else {
			fn = f
		}
		args = append(args, recv.v)
	}
	for _, arg := range call.Args {
		args = append(args, fr.get(arg))
	}
	return
}

func call(i *interpreter, caller *frame, callpos token.Pos, fn value, args []value) value {
	switch fn := fn.(type) {
	case *ssa.Function:
		if fn == nil {
			panic(rtErr("runtime error: invalid memory address or nil pointer dereference (call of nil func)"))
		}
		return callSSA(i, caller, callpos, fn, args, nil)
	case *closure:
		return callSSA(i, caller, callpos, fn.Fn, args, fn.Env)
	case *ssa.Builtin:
		return callBuiltin(caller, callpos, fn, args)
	case *boundMethod:
		return callSSA(i, caller, callpos, fn.fn, append([]value{fn.recv}, args...), nil)
	case *rtypeMethod:
		return callRtypeMethod(caller, fn, args)
	case *hostMethod:
		return callHostMethod(caller, fn, args[1:])
	case *hostFunc:
		return fn.f(caller, args)
	}
	panic(engineErr{fmt.Sprintf("cannot call %T", fn)})
}

// callMethod invokes a method by name on an interface value (used by
// intrinsics that have to call back into target code, e.g. http.Error).
func callMethod(i *interpreter, caller *frame, recv iface, name string, args ...value) value {
	if recv.t == nil {
		panic(rtErr("runtime error: invalid memory address or nil pointer dereference (method on nil interface)"))
	}
	if ho, ok := recv.v.(*hostObj); ok && recv.t == hostIfaceT {
		return callHostMethod(caller, &hostMethod{ho, name}, args)
	}
	ms := i.prog.MethodSets.MethodSet(recv.t)
	for k := 0; k < ms.Len(); k++ {
		sel := ms.At(k)
		if sel.Obj().Name() == name {
			f := i.prog.MethodValue(sel)
			if f == nil {
				break
			}
			all := append([]value{recv.v}, args...)
			return callSSA(i, caller, token.NoPos, f, all, nil)
		}
	}
	panic(engineErr{fmt.Sprintf("callMethod: %v has no method %s", recv.t, name)})
}

// hostFunc is a function value implemented by the engine (e.g. the cancel
// function of context.WithCancel).
type hostFunc struct {
	f func(fr *frame, args []value) value
}

// opaquePkgs are modelled only through their stubs: running their real code on
// the stubs' placeholder objects would be meaningless.
var opaquePkgs = map[string]bool{"github.com/gookit/validate": true}

func callSSA(i *interpreter, caller *frame, callpos token.Pos, fn *ssa.Function, args []value, env []value) value {
	fr := &frame{i: i, caller: caller, fn: fn}
	name := fn.String()
	if fn.Parent() == nil {
		if fn.Name() == "init" && fn.Synthetic != "" && fn.Pkg != nil && !strings.HasPrefix(fn.Pkg.Pkg.Path(), ruxPath) {
			return nil // package initialisers outside the repository are not run
		}
		if ext := intrinsics[name]; ext != nil {
			if r := ext(fr, args); r != fallThrough {
				i.ex.stats.Intrinsics[name] = true
				return r
			}
		}
		if strings.HasPrefix(fn.Name(), "verif") && fn.Pkg != nil {
			if ext := verifIntrinsics[fn.Name()]; ext != nil {
				return ext(fr, args)
			}
		}
		if fn.Pkg != nil && opaquePkgs[fn.Pkg.Pkg.Path()] {
			i.ex.unsupported("call into an opaque (stubbed) package without a stub: " + name)
		}
		if fn.Blocks == nil {
			// synthetic wrappers get built on demand; true externals have no body
			i.ex.unsupported("no code for function: " + name)
		}
	}
	if fn.Pkg != nil && strings.HasPrefix(fn.Pkg.Pkg.Path(), "github.com/gookit/rux") {
		i.ex.stats.Funcs[name] = true
	} else if fn.Parent() != nil && fn.Parent().Pkg != nil && strings.HasPrefix(fn.Parent().Pkg.Pkg.Path(), "github.com/gookit/rux") {
		i.ex.stats.Funcs[name] = true
	}
	if fn.TypeParams().Len() > 0 && len(fn.TypeArgs()) == 0 {
		panic(engineErr{"generic function body: " + name})
	}
	i.depth++
	if i.depth > 400 {
		i.ex.stats.UnwindFails++
		panic(pathEnd{"recursion bound exceeded"})
	}
	defer func() { i.depth-- }()

	fr.env = make(map[ssa.Value]value)
	fr.block = fn.Blocks[0]
	fr.locals = make([]value, len(fn.Locals))
	for i, l := range fn.Locals {
		fr.locals[i] = zero(mustDeref(l.Type()))
		fr.env[l] = &fr.locals[i]
	}
	for i, p := range fn.Params {
		fr.env[p] = args[i]
	}
	for i, fv := range fn.FreeVars {
		fr.env[fv] = env[i]
	}
	for fr.block != nil {
		runFrame(fr)
	}
	return fr.result
}

func runFrame(fr *frame) {
	defer func() {
		if fr.block == nil {
			return // normal return
		}
		p := recover()
		if isControl(p) {
			if s, ok := p.(string); ok {
				p = engineErr{"interpreter: " + s}
			}
			if te, ok := p.(*runtime.TypeAssertionError); ok {
				p = engineErr{"interpreter: " + te.Error() + " in " + fr.fn.String() + " at " + fr.where()}
			}
			panic(p)
		}
		fr.panicking = true
		fr.panic = p
		fr.runDefers()
		fr.block = fr.fn.Recover
	}()

	for {
		nonPhis := executePhis(fr)
		for _, instr := range nonPhis {
			if visitInstr(fr, instr) == kReturn {
				return
			}
		}
	}
}

func (fr *frame) where() string {
	if fr.cur == nil {
		return fr.fn.String()
	}
	pos := fr.cur.Pos()
	if pos == token.NoPos {
		// walk back to an instruction with a position
		return fr.fn.String()
	}
	p := fr.i.prog.Fset.Position(pos)
	return fmt.Sprintf("%s:%d", shortFile(p.Filename), p.Line)
}

func shortFile(f string) string {
	if k := strings.LastIndex(f, "/"); k >= 0 {
		return f[k+1:]
	}
	return f
}

func executePhis(fr *frame) []ssa.Instruction {
	firstNonPhi := -1
	for i, instr := range fr.block.Instrs {
		if _, ok := instr.(*ssa.Phi); !ok {
			firstNonPhi = i
			break
		}
	}
	nonPhis := fr.block.Instrs[firstNonPhi:]
	if firstNonPhi > 0 {
		phis := fr.block.Instrs[:firstNonPhi]
		predIndex := slices.Index(fr.block.Preds, fr.prevBlock)
		fr.phitemps = fr.phitemps[:0]
		for _, phi := range phis {
			phi := phi.(*ssa.Phi)
			fr.phitemps = append(fr.phitemps, fr.get(phi.Edges[predIndex]))
		}
		for i, phi := range phis {
			fr.env[phi.(*ssa.Phi)] = fr.phitemps[i]
		}
	}
	return nonPhis
}

// doRecover implements the recover() built-in.
func doRecover(caller *frame) value {
	if caller != nil && !caller.panicking &&
		caller.caller != nil && caller.caller.panicking {
		caller.caller.panicking = false
		p := caller.caller.panic
		caller.caller.panic = nil
		return panicValue(caller.i, p)
	}
	return iface{}
}

// panicValue converts a host-level panic payload to the target value that
// recover() returns.
func panicValue(i *interpreter, p interface{}) value {
	switch p := p.(type) {
	case targetPanic:
		return p.v
	case rtErr:
		return iface{i.runtimeErrorString, string(p)}
	case runtime.Error:
		return iface{i.runtimeErrorString, p.Error()}
	default:
		panic(engineErr{fmt.Sprintf("unexpected panic type %T in target call to recover()", p)})
	}
}

// describePanic renders a panic payload for messages.
func describePanic(p interface{}) string {
	switch p := p.(type) {
	case targetPanic:
		return "panic(" + toString(p.v) + ")"
	case rtErr:
		return string(p)
	case runtime.Error:
		return p.Error()
	}
	return fmt.Sprintf("%v", p)
}
