package main

// Per-property job tables: harnesses, bounds per tier, vacuity guards.

var propSpecs = map[string]PropSpec{
	"C11": {
		ID: "C11",
		Harnesses: []HarnessSpec{
			{Pkg: "rux", Name: "verifHarness_C11_formatPath", Quick: map[string]int{"L": 5}, Thorough: map[string]int{"L": 7, "fullAlphabet": 1},
				Covers: []string{"C11 formatPath compared"}},
			{Pkg: "rux", Name: "verifHarness_C11_simpleFmtPath", Quick: map[string]int{"L": 5}, Thorough: map[string]int{"L": 7, "fullAlphabet": 1},
				Covers: []string{"C11 simpleFmtPath compared"}},
			{Pkg: "rux", Name: "verifHarness_C11_matchEquiv", Quick: map[string]int{"L": 2}, Thorough: map[string]int{"L": 3},
				Covers: []string{"C11 match compared"}},
		},
		Assumptions: []string{
			"oracle = single-pass normaliser written from the property text (harness c11.go: verifSpecNorm)",
			"quick tier: bytes restricted to {'/',' ','.','%','a','b',TAB,0xC2,0xA0}; thorough: all 256 byte values for formatPath/simpleFmtPath",
			"registered paths in the match harness contain no '{' or '[' (static routes)",
			"UseEncodedPath clause is checked with the dispatch harnesses of C06 (choice of URL.Path vs EscapedPath())",
		},
		Bounds:     map[string]string{"L": "string length 0..5 quick / 0..7 thorough (formatPath, simpleFmtPath); 0..3 / 0..4 for each of P, G, p in the match harness", "U": "instruction budget 20M per path"},
		Symbolic:   []string{"every byte of the registered path, group prefix and request path"},
		Enumerated: []string{"string lengths (case split)", "StrictLastSlash on/off", "grouped / not grouped"},
	},
}
