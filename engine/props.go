package main

// Per-property job tables: harnesses, bounds per tier, vacuity guards.

var propSpecs = map[string]PropSpec{
	"C11": {
		ID: "C11",
		Harnesses: []HarnessSpec{
			{Pkg: "rux", Name: "verifHarness_C11_formatPath", Quick: map[string]int{"L": 5}, Thorough: map[string]int{"L": 7, "fullAlphabet": 1},
				Covers: []string{"C11 formatPath compared"}},
			{Pkg: "rux", Name: "verifHarness_C11_simpleFmtPath", Quick: map[string]int{"L": 5}, Thorough: map[string]int{"L": 7, "fullAlphabet": 1},
				Covers: []string{"C11 simpleFmtPath compared"}},
			{Pkg: "rux", Name: "verifHarness_C11_matchEquiv", Quick: map[string]int{"L": 2}, Thorough: map[string]int{"L": 3},
				Covers: []string{"C11 match compared"}},
		},
		Assumptions: []string{
			"oracle = single-pass normaliser written from the property text (harness c11.go: verifSpecNorm)",
			"quick tier: bytes restricted to {'/',' ','.','%','a','b',TAB,0xC2,0xA0}; thorough: all 256 byte values for formatPath/simpleFmtPath",
			"registered paths in the match harness contain no '{' or '[' (static routes)",
			"UseEncodedPath clause is checked with the dispatch harnesses of C06 (choice of URL.Path vs EscapedPath())",
		},
		Bounds:     map[string]string{"L": "string length 0..5 quick / 0..7 thorough (formatPath, simpleFmtPath); 0..3 / 0..4 for each of P, G, p in the match harness", "U": "instruction budget 20M per path"},
		Symbolic:   []string{"every byte of the registered path, group prefix and request path"},
		Enumerated: []string{"string lengths (case split)", "StrictLastSlash on/off", "grouped / not grouped"},
	},
	"C01": {
		ID: "C01",
		Harnesses: []HarnessSpec{
			{Pkg: "rux", Name: "verifHarness_C01_select", Quick: map[string]int{"L": 7}, Thorough: map[string]int{"L": 10},
				NCfgQ: 25, Covers: []string{"C01 route selected", "C01 no route"}},
			{Pkg: "rux", Name: "verifHarness_C01_select", Quick: map[string]int{"L": 7}, Thorough: map[string]int{"L": 9},
				CfgBase: 25, NCfgQ: 25 * 25, SampleQ: 280},
			{Pkg: "rux", Name: "verifHarness_C01_select", Quick: map[string]int{"L": 6}, Thorough: map[string]int{"L": 8},
				CfgBase: 25 + 25*25, NCfgQ: 25 * 25 * 25, SampleQ: 60, SampleT: 2500},
		},
		Assumptions: []string{
			"oracle = pattern grammar translated independently of rux (harness spec.go: verifSpecParse) + Go regexp membership; winner = static exact match, then dynamic routes with a complete literal first segment followed by '/', then the others, registration order inside each group; HEAD falls back to GET",
			"request path is in normal form (leading '/', no second leading '/', no trailing '/', last byte in 0x21..0x7f or >= 0xb0); other spellings are C11's",
			"request method is one of GET, POST, HEAD, DELETE or the foreign token BREW (forked); route method sets from a family of six",
			"byte-level regexp encoding is exact for subjects with invalid/multi-byte UTF-8 only for character classes under * or +; patterns that apply a non-ASCII-capable class once restrict the path to ASCII (recorded as out-of-bound paths)",
		},
		Bounds:     map[string]string{"L": "request path length 1..7 quick / 1..10 thorough, all 256 byte values", "T": "pool of 25 patterns x 6 method sets: quick = all 25 one-route tables, a seeded sample of 280 of the 625 two-route tables and 60 three-route tables; thorough = all one- and two-route tables and a seeded sample of 2500 three-route tables", "U": "instruction budget 20M per path; regexp parse enumeration <= 3000 parses"},
		Symbolic:   []string{"every byte of the request path"},
		Enumerated: []string{"route tables (pattern pool x method-set family)", "request method (5 values)", "path length"},
	},
	"C02": {
		ID: "C02",
		Harnesses: []HarnessSpec{
			{Pkg: "rux", Name: "verifHarness_C02_params", Quick: map[string]int{"L": 8}, Thorough: map[string]int{"L": 11},
				NCfgQ: 56, Covers: []string{"C02 dynamic match", "C02 no match", "C02 static", "C02 repeat on caching router"}},
		},
		Assumptions: []string{
			"statement checked directly on every path that returns a dynamic route: key set == variable names; some presence choice of the optional tail makes pattern[values] == path byte for byte with absent variables empty; every present value is in its variable's regex language (Go regexp membership formula on the value bytes)",
			"the regexp submatch split is the engine's exact leftmost-first enumeration of parses of the compiled pattern (regexp/syntax tree), forked with priority guards",
			"request path in normal form (see C01); method GET; one route per table",
			"parameters as returned by QuickMatch; the copy into Context.Params is covered by the dispatch harnesses (C10)",
		},
		Bounds:     map[string]string{"L": "path length 1..8 quick / 1..11 thorough, all byte values", "T": "28 patterns (1-3 variables, default/global/custom regexes, optional tails, catch-all .+) x cache off/on"},
		Symbolic:   []string{"every byte of the request path"},
		Enumerated: []string{"pattern", "cache on/off", "path length"},
	},
	"C07": {
		ID: "C07",
		Harnesses: []HarnessSpec{
			{Pkg: "rux", Name: "verifHarness_C07_twin", Quick: map[string]int{"L": 5, "K": 2}, Thorough: map[string]int{"L": 6, "K": 3},
				NCfgQ: 12, SampleQ: 6, Covers: []string{"C07 answer served from the cache"}},
		},
		Assumptions: []string{
			"twin routers built by the same registration program, caching off vs CachingWithNum(0..2); same request history on both; answers compared observationally (route name, path, methods, middleware count, parameter map contents, allowed-method set)",
			"all request paths of one history have the same (forked) length and independent symbolic bytes, so 'same path again' (hit) and 'another path' (miss/eviction) are solver cases",
			"handlers treat Params as read-only; registration finished before the first request",
		},
		Bounds:     map[string]string{"K": "history length 2 quick / 3 thorough", "L": "path length 1..5 / 1..6", "cap": "cache capacity 0,1,2", "T": "12 tables (6 sampled per quick run) x HandleMethodNotAllowed on/off x methods GET/HEAD/POST per request"},
		Symbolic:   []string{"every byte of every request path"},
		Enumerated: []string{"table", "capacity", "option", "request methods", "path length"},
	},
	"C13": {
		ID: "C13",
		Harnesses: []HarnessSpec{
			{Pkg: "rux", Name: "verifHarness_C13_methodName", Quick: map[string]int{"L": 6}, Thorough: map[string]int{"L": 8},
				Covers: []string{"C13 method accepted", "C13 method rejected"}},
			{Pkg: "rux", Name: "verifHarness_C13_varRegex", Quick: map[string]int{"L": 5}, Thorough: map[string]int{"L": 7},
				Covers: []string{"C13 regex accepted", "C13 regex rejected"}},
			{Pkg: "rux", Name: "verifHarness_C13_invalidRejected", NCfgQ: 14, Covers: []string{"C13 invalid definition tried"}},
			{Pkg: "rux", Name: "verifHarness_C13_lookupTotal", Quick: map[string]int{"L": 4}, Thorough: map[string]int{"L": 6},
				NCfgQ: 16 * 19, SampleQ: 40, NCfgT: 16 * (1 + 18 + 18*18), SampleT: 400, Covers: []string{"C13 lookup tried"}},
		},
		Assumptions: []string{
			"method-name harness: ASCII bytes (strings.ToUpper on non-ASCII is outside the byte-level encoding)",
			"variable-regex harness drives Route.goodRegexString directly with a symbolic regex text over the alphabet ( ) ? : \\ d + x [ ] P <; spec of 'capturing group' = unescaped '(' outside a class not followed by '?' or followed by '?P' / '?<'",
			"whether a concrete pattern compiles is decided by the native regexp.Compile (registration inputs of the catalogue are concrete)",
			"lookup harness calls QuickMatch with an arbitrary method string (0..4 bytes, or GET/HEAD/POST) and an arbitrary path string",
		},
		Bounds:     map[string]string{"L": "method name 0..6/8 bytes; regex text 0..5/7 bytes; request path 0..4/6 bytes, all byte values", "T": "catalogue of 14 invalid definitions; 18 'odd but accepted' patterns, tables of 0..2 of them x 16 option sets (sampled)"},
		Symbolic:   []string{"method-name bytes", "variable-regex bytes", "request method bytes", "request path bytes"},
		Enumerated: []string{"invalid-definition catalogue", "tables", "option sets"},
	},
	"C14": {
		ID: "C14",
		Harnesses: []HarnessSpec{
			{Pkg: "rux", Name: "verifHarness_C14_lruStep", Covers: []string{"C14 set", "C14 get hit", "C14 delete hit"}},
			{Pkg: "rux", Name: "verifHarness_C14_routerRepeat", Quick: map[string]int{"L": 7}, Thorough: map[string]int{"L": 10}, NCfgQ: 28,
				Covers: []string{"C14 repeat"}},
		},
		Assumptions: []string{
			"one-step formulation: any reachable cache state is its recency-ordered list of n <= cap distinct keys; it is constructed with the real Set from a fresh cache, then one operation with a key that may alias any stored key is compared with a slice model; the post-state check re-establishes the representation invariant, so histories of any length are covered for capacities 0..3",
			"container/list is interpreted from its own source",
			"Has is specified as refreshing recency (it is implemented by Get)",
		},
		Bounds:     map[string]string{"cap": "capacity 0..3, n = 0..cap entries", "keys": "1-byte symbolic keys (aliasing decided by the solver)", "L": "router clause: path length 1..7 / 1..10 over the 26 dynamic patterns of C02"},
		Symbolic:   []string{"all keys", "request path bytes"},
		Enumerated: []string{"capacity", "fill level", "operation", "pattern"},
	},
}
