package main

// Per-property job tables: harnesses, bounds per tier, vacuity guards.

var propSpecs = map[string]PropSpec{
	"C11": {
		ID: "C11",
		Harnesses: []HarnessSpec{
			{Pkg: "rux", Name: "verifHarness_C11_formatPath", Quick: map[string]int{"L": 5}, Thorough: map[string]int{"L": 7, "fullAlphabet": 1},
				Covers: []string{"C11 formatPath compared"}},
			{Pkg: "rux", Name: "verifHarness_C11_simpleFmtPath", Quick: map[string]int{"L": 5}, Thorough: map[string]int{"L": 7, "fullAlphabet": 1},
				Covers: []string{"C11 simpleFmtPath compared"}},
			{Pkg: "rux", Name: "verifHarness_C11_matchEquiv", Quick: map[string]int{"L": 2}, Thorough: map[string]int{"L": 3},
				Covers: []string{"C11 match compared"}},
			{Pkg: "rux", Name: "verifHarness_C11_encodedPath", NCfgQ: 5, Covers: []string{"C11 encoded path"}},
		},
		Assumptions: []string{
			"oracle = single-pass normaliser written from the property text (harness c11.go: verifSpecNorm)",
			"quick tier: bytes restricted to {'/',' ','.','%','a','b',TAB,0xC2,0xA0}; thorough: all 256 byte values for formatPath/simpleFmtPath",
			"registered paths in the match harness contain no '{' or '[' (static routes)",
			"UseEncodedPath clause: five concrete (decoded, escaped) pairs through ServeHTTP; url.URL.EscapedPath is the native function (net/url contract)",
		},
		Bounds:     map[string]string{"L": "string length 0..5 quick / 0..7 thorough (formatPath, simpleFmtPath); 0..3 / 0..4 for each of P, G, p in the match harness", "U": "instruction budget 20M per path"},
		Symbolic:   []string{"every byte of the registered path, group prefix and request path"},
		Enumerated: []string{"string lengths (case split)", "StrictLastSlash on/off", "grouped / not grouped"},
	},
	"C01": {
		ID: "C01",
		Harnesses: []HarnessSpec{
			{Pkg: "rux", Name: "verifHarness_C01_select", Quick: map[string]int{"L": 7}, Thorough: map[string]int{"L": 10},
				NCfgQ: 25, Covers: []string{"C01 route selected", "C01 no route"}},
			{Pkg: "rux", Name: "verifHarness_C01_select", Quick: map[string]int{"L": 7}, Thorough: map[string]int{"L": 9},
				CfgBase: 25, NCfgQ: 25 * 25, SampleQ: 280},
			{Pkg: "rux", Name: "verifHarness_C01_select", Quick: map[string]int{"L": 6}, Thorough: map[string]int{"L": 8},
				CfgBase: 25 + 25*25, NCfgQ: 25 * 25 * 25, SampleQ: 60, SampleT: 2500},
		},
		Assumptions: []string{
			"oracle = pattern grammar translated independently of rux (harness spec.go: verifSpecParse) + Go regexp membership; winner = static exact match, then dynamic routes with a complete literal first segment followed by '/', then the others, registration order inside each group; HEAD falls back to GET",
			"request path is in normal form (leading '/', no second leading '/', no trailing '/', last byte in 0x21..0x7f or >= 0xb0); other spellings are C11's",
			"request method is one of GET, POST, HEAD, DELETE or the foreign token BREW (forked); route method sets from a family of six",
			"byte-level regexp encoding is exact for subjects with invalid/multi-byte UTF-8 only for character classes under * or +; patterns that apply a non-ASCII-capable class once restrict the path to ASCII (recorded as out-of-bound paths)",
		},
		Bounds:     map[string]string{"L": "request path length 1..7 quick / 1..10 thorough, all 256 byte values", "T": "pool of 25 patterns x 6 method sets: quick = all 25 one-route tables, a seeded sample of 280 of the 625 two-route tables and 60 three-route tables; thorough = all one- and two-route tables and a seeded sample of 2500 three-route tables", "U": "instruction budget 20M per path; regexp parse enumeration <= 3000 parses"},
		Symbolic:   []string{"every byte of the request path"},
		Enumerated: []string{"route tables (pattern pool x method-set family)", "request method (5 values)", "path length"},
	},
	"C02": {
		ID: "C02",
		Harnesses: []HarnessSpec{
			{Pkg: "rux", Name: "verifHarness_C02_params", Quick: map[string]int{"L": 8}, Thorough: map[string]int{"L": 11},
				NCfgQ: 31 * 3, Covers: []string{"C02 dynamic match", "C02 no match", "C02 static", "C02 repeat on caching router"}},
		},
		Assumptions: []string{
			"statement checked directly on every path that returns a dynamic route: key set == variable names; some presence choice of the optional tail makes pattern[values] == path byte for byte with absent variables empty; every present value is in its variable's regex language (Go regexp membership formula on the value bytes)",
			"the regexp submatch split is the engine's exact leftmost-first enumeration of parses of the compiled pattern (regexp/syntax tree), forked with priority guards",
			"request path in normal form (see C01); method GET; one route per table",
			"parameters as returned by QuickMatch; the copy into Context.Params is covered by the dispatch harnesses (C10)",
		},
		Bounds:     map[string]string{"L": "path length 1..8 quick / 1..11 thorough, all byte values", "T": "31 patterns (1-3 variables, default/global/custom regexes incl. custom regexes on variables named like global ones, optional tails, catch-all .+) x cache off / on / capacity 1 with an interleaved request"},
		Symbolic:   []string{"every byte of the request path"},
		Enumerated: []string{"pattern", "cache on/off", "path length"},
	},
	"C07": {
		ID: "C07",
		Harnesses: []HarnessSpec{
			{Pkg: "rux", Name: "verifHarness_C07_twin", Quick: map[string]int{"L": 4, "K": 2}, Thorough: map[string]int{"L": 6, "K": 3},
				NCfgQ: 15, Covers: []string{"C07 answer served from the cache"}},
		},
		Assumptions: []string{
			"twin routers built by the same registration program, caching off vs CachingWithNum(0..2); same request history on both; answers compared observationally (route name, path, methods, middleware count, parameter map contents, allowed-method set)",
			"all request paths of one history have the same (forked) length and independent symbolic bytes, so 'same path again' (hit) and 'another path' (miss/eviction) are solver cases",
			"handlers treat Params as read-only; registration finished before the first request",
		},
		Bounds:     map[string]string{"K": "history length 2 quick / 3 thorough", "L": "path length 1..4 / 1..6", "cap": "cache capacity 0,1,2", "T": "15 tables (incl. multi-method routes overlapped by earlier single-method ones) x HandleMethodNotAllowed on/off x methods GET/HEAD/POST per request"},
		Symbolic:   []string{"every byte of every request path"},
		Enumerated: []string{"table", "capacity", "option", "request methods", "path length"},
	},
	"C13": {
		ID: "C13",
		Harnesses: []HarnessSpec{
			{Pkg: "rux", Name: "verifHarness_C13_methodName", Quick: map[string]int{"L": 6}, Thorough: map[string]int{"L": 8},
				Covers: []string{"C13 method accepted", "C13 method rejected"}},
			{Pkg: "rux", Name: "verifHarness_C13_varRegex", Quick: map[string]int{"L": 5}, Thorough: map[string]int{"L": 7},
				Covers: []string{"C13 regex accepted", "C13 regex rejected"}},
			{Pkg: "rux", Name: "verifHarness_C13_invalidRejected", NCfgQ: 17, Covers: []string{"C13 invalid definition tried"}},
			{Pkg: "rux", Name: "verifHarness_C13_lookupTotal", Quick: map[string]int{"L": 4}, Thorough: map[string]int{"L": 6},
				NCfgQ: 16 * 19, SampleQ: 26, NCfgT: 16 * (1 + 18 + 18*18), SampleT: 400, Covers: []string{"C13 lookup tried"}},
		},
		Assumptions: []string{
			"method-name harness: ASCII bytes (strings.ToUpper on non-ASCII is outside the byte-level encoding)",
			"variable-regex harness drives Route.goodRegexString directly with a symbolic regex text over the alphabet ( ) ? : \\ d + x [ ] P <; spec of 'capturing group' = unescaped '(' outside a class not followed by '?' or followed by '?P' / '?<'",
			"whether a concrete pattern compiles is decided by the native regexp.Compile (registration inputs of the catalogue are concrete)",
			"lookup harness calls QuickMatch with an arbitrary method string (0..4 bytes, or GET/HEAD/POST) and an arbitrary path string",
		},
		Bounds:     map[string]string{"L": "method name 0..6/8 bytes; regex text 0..5/7 bytes; request path 0..4/6 bytes, all byte values", "T": "catalogue of 14 invalid definitions; 18 'odd but accepted' patterns, tables of 0..2 of them x 16 option sets (sampled)"},
		Symbolic:   []string{"method-name bytes", "variable-regex bytes", "request method bytes", "request path bytes"},
		Enumerated: []string{"invalid-definition catalogue", "tables", "option sets"},
	},
	"C14": {
		ID: "C14",
		Harnesses: []HarnessSpec{
			{Pkg: "rux", Name: "verifHarness_C14_lruStep", Covers: []string{"C14 set", "C14 get hit", "C14 delete hit"}},
			{Pkg: "rux", Name: "verifHarness_C14_routerRepeat", Quick: map[string]int{"L": 7}, Thorough: map[string]int{"L": 10}, NCfgQ: 31,
				Covers: []string{"C14 repeat"}},
		},
		Assumptions: []string{
			"one-step formulation: any reachable cache state is its recency-ordered list of n <= cap distinct keys; it is constructed with the real Set from a fresh cache, then one operation with a key that may alias any stored key is compared with a slice model; the post-state check re-establishes the representation invariant, so histories of any length are covered for capacities 0..3",
			"container/list is interpreted from its own source",
			"Has is specified as refreshing recency (it is implemented by Get)",
		},
		Bounds:     map[string]string{"cap": "capacity 0..3, n = 0..cap entries", "keys": "1-byte symbolic keys (aliasing decided by the solver)", "L": "router clause: path length 1..7 / 1..10 over the 26 dynamic patterns of C02"},
		Symbolic:   []string{"all keys", "request path bytes"},
		Enumerated: []string{"capacity", "fill level", "operation", "pattern"},
	},
	"C04": {
		ID: "C04",
		Harnesses: []HarnessSpec{
			{Pkg: "rux", Name: "verifHarness_C04_onion", NCfgQ: 10368, SampleQ: 110, SampleT: 10368, Covers: []string{"C04 program run"}},
			{Pkg: "rux", Name: "verifHarness_C04_cursor", Covers: []string{"C04 long chain"}},
			{Pkg: "rux", Name: "verifHarness_C04_D8_witness", Witness: "D8"},
		},
		Assumptions: []string{
			"oracle = onion trace computed from the registration program text with ideal integers (harness c04.go: verifOnion), never from rux's slices",
			"behaviours: every handler calls Next() kd in {0,1,2} times, one deviant handler with its own count",
			"chains whose cursor can exceed 62 by increments alone are the known findings D8/D9 and are checked by witness harnesses only",
		},
		Bounds:     map[string]string{"P": "registration-program family of 10368 programs (0-2 global middleware in up to three Use calls incl. after the routes, group/nested-group/route middleware counts, Use inside a group, later Route.Use, custom or default NotFound/NotAllowed); 110 sampled per quick run, all in thorough", "n": "cursor harness: chains of 8..20 handlers"},
		Symbolic:   []string{"none beyond path/branch feasibility: this property's space is programs x behaviours, explored by forking (stated as enumerated)"},
		Enumerated: []string{"registration programs", "request target (6 routes, 404, 405)", "per-handler Next() counts"},
	},
	"C05": {
		ID: "C05",
		Harnesses: []HarnessSpec{
			{Pkg: "rux", Name: "verifHarness_C05_abort", Quick: map[string]int{"N": 4}, Thorough: map[string]int{"N": 6}, Covers: []string{"C05 abort scenario"}},
			{Pkg: "rux", Name: "verifHarness_C05_nextStep", Covers: []string{"C05 next step", "C05 aborted cursor"}},
			{Pkg: "rux", Name: "verifHarness_C05_longChain", Covers: []string{"C05 long chain"}},
			{Pkg: "rux", Name: "verifHarness_C05_limitShapes", Covers: []string{"C05 chain refused at registration", "C05 chain accepted at the limit"}},
			{Pkg: "rux", Name: "verifHarness_C05_D9_witness", Witness: "D9"},
		},
		Assumptions: []string{
			"AbortWithStatus codes are 100..599 (symbolic); the recording writer is the C08 stub",
			"nextStep: the int8 cursor is a solver variable in [-1,100]; values 101..127 are reachable only through the recorded cursor overflow (known finding D8)",
			"long chains (21..62 handlers) are checked for everything except IsAborted() sampled after Next(), which is the recorded known finding D9",
		},
		Bounds:     map[string]string{"N": "chains of 1..4 (quick) / 1..6 (thorough) handlers, 0..2 of them global, every aborting position, abort before/after/without Next, three abort APIs, optional second Next(), other handlers calling Next 0..2 times", "long": "chain lengths 21, 32, 40, 62 with abort at the first, middle, last handler"},
		Symbolic:   []string{"status code of AbortWithStatus", "int8 chain cursor (one-step harness)"},
		Enumerated: []string{"chain shapes", "abort position / time / API"},
	},
	"C06": {
		ID: "C06",
		Harnesses: []HarnessSpec{
			{Pkg: "rux", Name: "verifHarness_C06_order", Quick: map[string]int{"L": 6}, Thorough: map[string]int{"L": 8}, NCfgQ: 16 * 11, SampleQ: 90,
				Covers: []string{"C06 route", "C06 not allowed", "C06 not found"}},
			{Pkg: "rux", Name: "verifHarness_C06_serve", Quick: map[string]int{"L": 6}, Thorough: map[string]int{"L": 8}, NCfgQ: 22,
				Covers: []string{"C06 served route", "C06 served 404", "C06 served 405"}},
			{Pkg: "rux", Name: "verifHarness_C06_intercept", Quick: map[string]int{"L": 3}, Thorough: map[string]int{"L": 5}, NCfgQ: 8 * 4 * 11, SampleQ: 120,
				Covers: []string{"C06 intercept"}},
		},
		Assumptions: []string{
			"oracle = the decision list of the statement over the independent pattern specification (spec.go); allowed set compared as a set, Allow header compared with the sorted join",
			"request path in normal form for the order/serve harnesses; arbitrary bytes for the intercept harness",
			"InterceptAll: twin router without the option queried with the target itself",
		},
		Bounds:     map[string]string{"L": "path length 1..6 / 1..8", "T": "11 tables (with and without '/*' routes, HEAD/GET pairs, overlapping methods) x 16 option sets {not-allowed, fallback, strict, caching}; 8 intercept targets incl. non-normalised spellings"},
		Symbolic:   []string{"every byte of the request path"},
		Enumerated: []string{"tables", "option sets", "request method (6)", "intercept target", "custom/default fallback handlers"},
	},
	"C08": {
		ID: "C08",
		Harnesses: []HarnessSpec{
			{Pkg: "rux", Name: "verifHarness_C08_writerStep", Covers: []string{"C08 SetStatus", "C08 Write", "C08 Flush"}},
			{Pkg: "rux", Name: "verifHarness_C08_sequence", Quick: map[string]int{"K": 4}, Thorough: map[string]int{"K": 6}, Covers: []string{"C08 sequence"}},
		},
		Assumptions: []string{
			"one-step formulation from an arbitrary valid writer state (status, length, ghost counters symbolic, constrained by the invariant stated in harness c08.go), so operation sequences of any length are covered",
			"the underlying ResponseWriter is a recording stub whose Write accepts a symbolic number of bytes in [0,len] and may return an error",
		},
		Bounds:     map[string]string{"K": "sequence cross-check: 4 / 6 operations from {SetStatus(symbolic int), Write, Flush, SetHeader} in one handler", "write": "buffers of 0..2 bytes in the one-step harness"},
		Symbolic:   []string{"status codes (full int range)", "committed flag", "length", "bytes accepted", "write error"},
		Enumerated: []string{"operation"},
	},
	"C09": {
		ID: "C09",
		Harnesses: []HarnessSpec{
			{Pkg: "rux", Name: "verifHarness_C09_panic", Covers: []string{"C09 crash scenario"}},
			{Pkg: "handlers", Name: "verifHarness_C09_panicsHandler", Covers: []string{"C09 PanicsHandler"}},
		},
		Assumptions: []string{
			"panic value is a pointer (identity compared); hook status code symbolic in 100..599",
			"sync.Pool stub hands the recycled context to the following request when one was returned",
		},
		Bounds:     map[string]string{"chain": "1..3 handlers (0..1 global), route / NotFound / NotAllowed chains, every crash position before or after Next(), hook absent / no-op / status / status+body, one following request"},
		Symbolic:   []string{"hook status code"},
		Enumerated: []string{"chain shape", "crash point", "hook behaviour"},
	},
	"C10": {
		ID: "C10",
		Harnesses: []HarnessSpec{
			{Pkg: "rux", Name: "verifHarness_C10_dirtyContext", Covers: []string{"C10 context reused"}},
		},
		Assumptions: []string{
			"the pooled context is havocked field by field (cursor any int8, data/params/errors/handlers/status/length/Resp/Req) before the request; any state an earlier request can leave is an instance, so histories of any length are covered",
		},
		Bounds:     map[string]string{"req": "next request is static, dynamic (1..3 symbolic id bytes), 404 or 405"},
		Symbolic:   []string{"cursor", "writer status and length", "presence flags", "dynamic id bytes"},
		Enumerated: []string{"number of stale errors/handlers", "request kind"},
	},
	"C12": {
		ID: "C12",
		Harnesses: []HarnessSpec{
			{Pkg: "rux", Name: "verifHarness_C12_groups", NCfgQ: 864, SampleQ: 80, SampleT: 864, Covers: []string{"C12 program run"}},
		},
		Assumptions: []string{
			"group prefixes are symbolic lower-case letters (clean, non-root), spelled '/x', 'x' or '/x/'; route paths concrete",
			"handler identity is observed by calling the handler (each records its id); expected prefix/middleware lists are computed from the program text",
			"Resource's group part is exercised by the C16 harness",
		},
		Bounds:     map[string]string{"P": "program family of 864 shapes: route before/inside/between/after groups, nested group, sibling group with different middleware, Use between two routes of a group, variadic middleware slice with spare capacity, Controller; 80 sampled per quick run", "prefix": "outer prefix 1..2 symbolic letters, inner 1", "probe": "each registered full path, plus one symbolic path of length 1..8"},
		Symbolic:   []string{"group prefix bytes", "probe path bytes"},
		Enumerated: []string{"program shapes", "prefix spelling"},
	},
	"C15": {
		ID: "C15",
		Harnesses: []HarnessSpec{
			{Pkg: "rux", Name: "verifHarness_C15_buildURL", Quick: map[string]int{"L": 3}, Thorough: map[string]int{"L": 4}, NCfgQ: 19 * 3 * 4, SampleQ: 90,
				Covers: []string{"C15 url built"}},
			{Pkg: "rux", Name: "verifHarness_C15_getRoute", Covers: []string{"C15 getRoute"}},
		},
		Assumptions: []string{
			"values are assumed to satisfy their variable's regex (Go regexp membership formula) - the property's precondition",
			"'when requested' is modelled as QuickMatch(GET, u.Path); the trip through url.URL.String and the HTTP server is net/url's contract",
			"bound: the last byte of a value that ends the path is not '/' and not the tail of a white-space rune (request-path normalisation would remove it; outside the claim, see DESIGN.md)",
			"Go's map iteration order inside Build is explored through 4 rotations/reversals of the engine's deterministic order; natively the replay repeats 40 times",
			"extra (non-variable) arguments are concrete; url.Values.Encode is native",
		},
		Bounds:     map[string]string{"L": "value length 1..3 quick / 1..4 thorough per variable, all byte values the regex admits", "T": "19 named routes (static, 1-3 variables, default/global/custom regexes) x 3 argument styles x 3 naming APIs x 4 map orders"},
		Symbolic:   []string{"every byte of every variable value"},
		Enumerated: []string{"route", "argument style", "naming API", "map order", "value lengths"},
	},
	"C16": {
		ID: "C16",
		Harnesses: []HarnessSpec{
			{Pkg: "rux", Name: "verifHarness_C16_resource", Quick: map[string]int{"L": 6}, Thorough: map[string]int{"L": 8}, NCfgQ: 128 * 2 * 3 * 7, SampleQ: 70, SampleT: 1500,
				Covers: []string{"C16 action dispatched", "C16 no action"}},
			{Pkg: "rux", Name: "verifHarness_C16_invalid", NCfgQ: 2, Covers: []string{"C16 invalid controller"}},
		},
		Assumptions: []string{
			"the 128 method sets are 128 generated struct types (tools/gen_c16.py), with and without Uses()",
			"reflect is answered from go/types method sets by the engine's intrinsics (ValueOf, Type, Kind, Elem, Name, MethodByName, IsValid, Interface) - the engine's weakest intrinsic; counterexamples are replayed natively with the real reflect",
			"iteration order of the RESTFulActions map: 7 rotations of the literal order",
			"probe = resource path + symbolic tail; oracle = the seven-row table restricted to the implemented actions, evaluated with the C01 winner rule",
		},
		Bounds:     map[string]string{"L": "probe tail 0..6 / 0..8 symbolic bytes, 8 request methods", "T": "128 subsets x Uses on/off x 3 base paths x 7 map orders = 5376 configurations; 70 sampled per quick run, 1500 thorough"},
		Symbolic:   []string{"probe tail bytes"},
		Enumerated: []string{"controller type", "Uses", "base path", "map order", "method"},
	},
	"C17": {
		ID: "C17",
		Harnesses: []HarnessSpec{
			{Pkg: "rux", Name: "verifHarness_C17_static", Quick: map[string]int{"L": 5}, Thorough: map[string]int{"L": 8}, NCfgQ: 4 * 3 * 2 * 2, SampleQ: 20,
				Covers: []string{"C17 file served", "C17 nothing served"}},
		},
		Assumptions: []string{
			"'serving a file' is a boundary event of the engine's stubs for http.FileServer(fs).ServeHTTP, http.ServeFile, http.ServeContent, os.Open, os.ReadFile, os.Stat; the check decides which name reaches which boundary",
			"trusted by contract: net/http's file server opens path.Clean(\"/\"+r.URL.Path) through the given FileSystem and http.Dir confines names to its root; symlinks, case folding and the OS are outside the claim",
			"http.StripPrefix is interpreted from the standard library's own source; the request's URL.Path bytes are arbitrary (every percent-encoding of a byte sequence is covered by making the decoded bytes symbolic)",
			"native replay serves a real temporary tree with a secret beside the root and compares the body with the secret",
		},
		Bounds:     map[string]string{"L": "request path = prefix + 0..5 (quick) / 0..8 (thorough) symbolic bytes, or 0..L arbitrary bytes without the prefix", "T": "StaticDir / StaticFiles / StaticFS / StaticFile x prefixes /s, /assets, /a.b x extension lists css, css|js x cache on/off (20 of 48 sampled per quick run)"},
		Symbolic:   []string{"request path bytes incl. NUL, back-slash, dots, slashes, >= 0x80"},
		Enumerated: []string{"handler kind", "prefix", "extension list", "cache"},
	},
	"C18": {
		ID: "C18",
		Harnesses: []HarnessSpec{
			{Pkg: "binding", Name: "verifHarness_C18_auto", Covers: []string{"C18 source query", "C18 source form", "C18 source multipart", "C18 source json", "C18 source xml", "C18 source error", "C18 validated"}},
		},
		Assumptions: []string{
			"decidable part only: source selection and 'successful bind implies validation'; the decoders (encoding/json, encoding/xml, formam), gookit/validate and Request.ParseForm/ParseMultipartForm/URL.Query are boundary stubs that record an event and return a symbolic error",
			"NOT claimed (cannot be encoded within reach): bind(encode(v)) == v and 'malformed input yields an error, never a panic' - reflection-driven library code",
			"Content-Type = type '/' subtype [parameters] with the subtype either one of seven concrete names or 1..4 symbolic lower-case letters; plus the empty string and a slash-less string; oracle decides by the subtype",
		},
		Bounds:     map[string]string{"ct": "4 types x (7 concrete subtypes + symbolic subtype of 1..4 letters) x 3 parameter suffixes, empty and malformed", "methods": "9 methods + 1 foreign", "validator": "on/off"},
		Symbolic:   []string{"subtype letters", "decoder / parser / validator outcomes"},
		Enumerated: []string{"method", "type", "concrete subtype", "parameters", "validator on/off"},
	},
	"C19": {
		ID: "C19",
		Harnesses: []HarnessSpec{
			{Pkg: "rux", Name: "verifHarness_C19_helpers", Covers: []string{"C19 helper"}},
			{Pkg: "render", Name: "verifHarness_C19_renderers", Covers: []string{"C19 raw renderer", "C19 encoding renderer", "C19 encoder error returned"}},
			{Pkg: "render", Name: "verifHarness_C19_auto", Covers: []string{"C19 negotiation"}},
		},
		Assumptions: []string{
			"json/xml encoders are boundary stubs writing an uninterpreted rendering E(obj) or returning a symbolic error; 'decodes back to the value' is checked only in the native replay (codec internals are outside the encoding)",
			"Stream (io.Copy) and the file helpers are not covered here (C17 covers which file names reach the boundary)",
			"Accept = list of 0..3 tokens from eight (five supported MIME types, an unsupported one, empty, one with a q parameter); text/html counts as supported (handled, nothing rendered) as in the code",
		},
		Bounds:     map[string]string{"status": "symbolic in 100..599", "payload": "0..3 symbolic bytes", "preset": "Content-Type absent or one of three preset values"},
		Symbolic:   []string{"status code", "payload bytes", "encoder outcome"},
		Enumerated: []string{"helper / renderer", "preset Content-Type", "Accept token list"},
	},
	"C20": {
		ID: "C20",
		Harnesses: []HarnessSpec{
			{Pkg: "handlers", Name: "verifHarness_C20_basicAuth", Covers: []string{"C20 auth passed", "C20 auth 401", "C20 auth 403"}},
			{Pkg: "handlers", Name: "verifHarness_C20_methodOverride", Covers: []string{"C20 method rewritten", "C20 override tried"}},
			{Pkg: "handlers", Name: "verifHarness_C20_wrappers", Covers: []string{"C20 wrappers"}},
		},
		Assumptions: []string{
			"Request.BasicAuth() is stubbed by an arbitrary (user, password, ok) triple - base64/header parsing is net/http's; every malformed header is the case ok=false (natively a malformed header is also sent)",
			"Request.FormValue is stubbed by a symbolic string (natively r.Form is pre-populated); override values are ASCII",
			"context.WithValue / Value are modelled by the engine (key equality)",
		},
		Bounds:     map[string]string{"accounts": "0..2 entries with symbolic 0..2-byte user names and passwords", "credentials": "0..2-byte user and password", "override": "0..6 symbolic bytes in the form field and in the header, 9 request methods", "wrappers": "lists of 1..5"},
		Symbolic:   []string{"account map keys and values", "credentials", "override value bytes"},
		Enumerated: []string{"number of accounts", "gate position", "request method", "wrapper count"},
	},
}
