package main

// Ordered map used for every Go map of the target program.  Iteration order is
// insertion order (deterministic, which re-execution forking needs); keys may
// be symbolic strings / scalars, in which case a lookup forks over the
// entries whose key can equal the probe, plus "absent".

import (
	"go/types"
)

type mentry struct {
	key value
	val value
}

type omap struct {
	keyType types.Type
	entries []*mentry
	idx     map[interface{}]*mentry // concrete, Go-comparable keys only
	nSym    int                     // entries whose key is not in idx
}

func makeMap(kt types.Type) *omap {
	return &omap{keyType: kt, idx: map[interface{}]*mentry{}}
}

func indexable(k value) bool {
	switch k.(type) {
	case bool, int, int8, int16, int32, int64, uint, uint8, uint16, uint32, uint64, uintptr, string, *value, float32, float64:
		return true
	}
	return false
}

func (m *omap) len() int {
	if m == nil {
		return 0
	}
	return len(m.entries)
}

// find returns the entry for key k or nil.
func (m *omap) find(ex *Exec, k value) *mentry {
	if m == nil || len(m.entries) == 0 {
		return nil
	}
	if indexable(k) && m.nSym == 0 {
		return m.idx[k]
	}
	ts := ex.ts
	conds := make([]*Term, 0, len(m.entries)+1)
	var nots []*Term
	allConst := true
	for _, e := range m.entries {
		c := toBoolTerm(ts, equalsV(ex, m.keyType, e.key, k))
		conds = append(conds, c)
		nots = append(nots, ts.Not(c))
		if !c.IsConst() {
			allConst = false
		}
	}
	if allConst {
		for i, c := range conds {
			if c.IsTrue() {
				return m.entries[i]
			}
		}
		return nil
	}
	conds = append(conds, ts.And(nots...))
	i := ex.choose(conds)
	if i < len(m.entries) {
		return m.entries[i]
	}
	return nil
}

func (m *omap) insert(ex *Exec, k, v value) {
	if e := m.find(ex, k); e != nil {
		e.val = v
		return
	}
	e := &mentry{key: k, val: v}
	m.entries = append(m.entries, e)
	if indexable(k) {
		m.idx[k] = e
	} else {
		m.nSym++
	}
}

func (m *omap) delete(ex *Exec, k value) {
	if m == nil {
		return
	}
	e := m.find(ex, k)
	if e == nil {
		return
	}
	for i, x := range m.entries {
		if x == e {
			m.entries = append(m.entries[:i:i], m.entries[i+1:]...)
			break
		}
	}
	if indexable(e.key) {
		delete(m.idx, e.key)
	} else {
		m.nSym--
	}
}

type omapIter struct {
	snap []*mentry
	m    *omap
	i    int
}

func (it *omapIter) next() tuple {
	for it.i < len(it.snap) {
		e := it.snap[it.i]
		it.i++
		// skip entries deleted during iteration
		alive := false
		for _, x := range it.m.entries {
			if x == e {
				alive = true
				break
			}
		}
		if alive {
			return tuple{true, e.key, e.val}
		}
	}
	return tuple{false, nil, nil}
}

func (m *omap) iter(ex *Exec) *omapIter {
	if m == nil {
		return &omapIter{}
	}
	snap := append([]*mentry(nil), m.entries...)
	// optional rotation of the iteration order (Go leaves it unspecified)
	if ex != nil && ex.mapOrder != 0 && len(snap) > 1 {
		r := ex.mapOrder
		rev := false
		if r < 0 {
			rev = true
			r = -r - 1
		}
		r = r % len(snap)
		snap = append(snap[r:], snap[:r]...)
		if rev {
			for i, j := 0, len(snap)-1; i < j; i, j = i+1, j-1 {
				snap[i], snap[j] = snap[j], snap[i]
			}
		}
	}
	return &omapIter{snap: snap, m: m}
}
