package main

// Execution-path context: forking by re-execution along a recorded decision
// prefix (deterministic interpreter), path condition, obligations, inputs.

import (
	"fmt"
	"sort"
	"strings"
)

// pathEnd aborts the current path (assumption false, out of bound, …).
type pathEnd struct{ reason string }

type inputRec struct {
	Kind  string  `json:"kind"`
	Label string  `json:"label"`
	terms []*Term // symbolic pieces (bytes of a string, or the single scalar)
	conc  int64   // for forked (concrete) inputs
	N     int     `json:"n,omitempty"`
}

type Obligation struct {
	Harness string
	Cfg     int
	Msg     string
	Pos     string
	Status  string // discharged | violated | unknown
	Model   []ReplayVal
	Prefix  []int
	MapOrder int
	Pkg     string         // the job the obligation belongs to (set by runJobs)
	Params  map[string]int
}

type ReplayVal struct {
	Kind  string `json:"kind"`
	Label string `json:"label"`
	Int   int64  `json:"int,omitempty"`
	Bytes []int  `json:"bytes,omitempty"`
	Str   string `json:"str,omitempty"` // printable rendering, informational
}

type JobStats struct {
	Paths        int
	Instrs       int64
	Obligations  int
	Discharged   int
	Violated     int
	Unknown      int
	OutOfBound   map[string]int
	Unsupported  map[string]int
	Covers       map[string]int
	Funcs        map[string]bool
	Intrinsics   map[string]bool
	Forks        int
	UnwindFails  int
	PathEndsAssm int
	SolverSat    int
}

func newJobStats() *JobStats {
	return &JobStats{OutOfBound: map[string]int{}, Unsupported: map[string]int{}, Covers: map[string]int{},
		Funcs: map[string]bool{}, Intrinsics: map[string]bool{}}
}

func (a *JobStats) merge(b *JobStats) {
	a.Paths += b.Paths
	a.Instrs += b.Instrs
	a.Obligations += b.Obligations
	a.Discharged += b.Discharged
	a.Violated += b.Violated
	a.Unknown += b.Unknown
	a.Forks += b.Forks
	a.UnwindFails += b.UnwindFails
	a.PathEndsAssm += b.PathEndsAssm
	for k, v := range b.OutOfBound {
		a.OutOfBound[k] += v
	}
	for k, v := range b.Unsupported {
		a.Unsupported[k] += v
	}
	for k, v := range b.Covers {
		a.Covers[k] += v
	}
	for k := range b.Funcs {
		a.Funcs[k] = true
	}
	for k := range b.Intrinsics {
		a.Intrinsics[k] = true
	}
}

type Exec struct {
	ts        *TermStore
	sol       *Solver
	prefix    []int
	pos       int
	decisions []int
	pending   *[][]int // job-local stack of unexplored prefixes
	pcs       []*Term
	inputs    []*inputRec
	nvar      int
	stats     *JobStats
	obls      []*Obligation
	harness   string
	cfg       int
	params    map[string]int
	concrete  bool // concrete replay mode (differential validation): inputs come from vector
	vector    []ReplayVal
	vpos      int
	maxInstr  int64
	ninstr    int64
	curPos    string
	samples   []string
	curModel     map[string]uint64
	lastSatModel map[string]uint64
	lastSatLit   Lit
	pcSet        map[int]bool
	negOf        map[int]bool
	poolMode  int
	mapOrder  int
	events    []string // verifObserve log
	coverSeq  []string
	concFails []string
	modeSplit bool
	wantWitness bool
	witness   []ReplayVal
}

func (e *Exec) fresh(label string, w int) *Term {
	e.nvar++
	name := fmt.Sprintf("v%d_%s", e.nvar, sanitize(label))
	return e.ts.Var(name, w)
}

func sanitize(s string) string {
	var sb strings.Builder
	for _, c := range s {
		if (c >= 'a' && c <= 'z') || (c >= 'A' && c <= 'Z') || (c >= '0' && c <= '9') || c == '_' {
			sb.WriteRune(c)
		} else {
			sb.WriteByte('_')
		}
	}
	return sb.String()
}

// assume adds c to the path condition; ends the path if c is constant false.
func (e *Exec) assume(c *Term) {
	if c.IsTrue() {
		return
	}
	if c.IsFalse() {
		panic(pathEnd{"assume false"})
	}
	e.pcs = append(e.pcs, c)
	e.sol.Assert(c)
	e.notePC(c)
	// keep the model invariant: curModel satisfies every pc
	if e.curModel != nil && evalTerm(c, e.curModel) == 1 {
		return
	}
	if e.lastSatModel != nil && evalTerm(c, e.lastSatModel) == 1 && e.modelOK(e.lastSatModel) {
		e.curModel = e.lastSatModel
		return
	}
	e.curModel = nil
}

func (e *Exec) modelOK(m map[string]uint64) bool {
	for _, p := range e.pcs {
		if evalTerm(p, m) != 1 {
			return false
		}
	}
	return true
}

func (e *Exec) notePC(c *Term) {
	if e.pcSet == nil {
		e.pcSet = map[int]bool{}
		e.negOf = map[int]bool{}
	}
	e.pcSet[c.id] = true
	switch c.op {
	case "and":
		for _, a := range c.args {
			e.notePC(a)
		}
	case "not":
		e.negOf[c.args[0].id] = true
		if c.args[0].op == "or" {
			for _, a := range c.args[0].args {
				e.notePC(e.ts.Not(a))
			}
		}
	}
}

// feasible: is pc ∧ (lit) satisfiable?  unknown counts as feasible.
// A model of the current path condition is kept; a literal that is true in
// it is feasible without asking the solver.
func (e *Exec) feasible(c *Term, neg bool) bool {
	if c.IsConst() {
		return c.IsTrue() != neg
	}
	if e.pcSet != nil {
		if e.pcSet[c.id] {
			return !neg
		}
		if c.op == "not" && e.pcSet[c.args[0].id] {
			return neg
		}
		if nc := e.negOf[c.id]; nc {
			return neg
		}
	}
	if e.curModel != nil {
		v := evalTerm(c, e.curModel) == 1
		if v != neg {
			return true
		}
	}
	r := e.sol.Check(Lit{c, neg})
	if r == "sat" {
		e.lastSatModel = e.sol.Values(e.ts.vars)
		e.lastSatLit = Lit{c, neg}
		e.stats.SolverSat++
	}
	return r != "unsat"
}

// choose picks one of the alternatives (guards conds).  Alternatives whose
// guard is infeasible under the path condition are pruned; the others are
// queued as prefixes for later re-execution.
func (e *Exec) choose(conds []*Term) int {
	nonFalse := 0
	last := -1
	for i, c := range conds {
		if !c.IsFalse() {
			nonFalse++
			last = i
		}
	}
	if nonFalse == 0 {
		panic(pathEnd{"no alternative"})
	}
	if nonFalse == 1 && conds[last].IsTrue() {
		// deterministic: not a decision point
		return last
	}
	if e.pos < len(e.prefix) {
		k := e.prefix[e.pos]
		e.pos++
		e.decisions = append(e.decisions, k)
		if k >= len(conds) {
			panic(fmt.Sprintf("replay divergence: decision %d of %d alternatives", k, len(conds)))
		}
		e.assume(conds[k])
		return k
	}
	var feas []int
	for i, c := range conds {
		if c.IsFalse() {
			continue
		}
		if e.feasible(c, false) {
			feas = append(feas, i)
		}
	}
	if len(feas) == 0 {
		panic(pathEnd{"no feasible alternative"})
	}
	e.stats.Forks += len(feas) - 1
	for _, k := range feas[1:] {
		np := make([]int, len(e.decisions)+1)
		copy(np, e.decisions)
		np[len(e.decisions)] = k
		*e.pending = append(*e.pending, np)
	}
	k := feas[0]
	e.decisions = append(e.decisions, k)
	e.pos++
	e.assume(conds[k])
	return k
}

// branch decides a symbolic boolean.
func (e *Exec) branch(c *Term) bool {
	if c.IsConst() {
		return c.IsTrue()
	}
	return e.choose([]*Term{c, e.ts.Not(c)}) == 0
}

// concretize forks over the feasible values of a bit-vector term, using the
// candidate constants found syntactically first and the solver for the rest
// (bounded by maxVals).
func (e *Exec) concretize(t *Term, signed bool) int64 {
	if t.IsConst() {
		if signed {
			return t.sval()
		}
		return int64(t.val)
	}
	if t.w == 0 {
		if e.branch(t) {
			return 1
		}
		return 0
	}
	cands := map[uint64]bool{}
	collectConsts(t, cands, 0)
	var cs []uint64
	for c := range cands {
		cs = append(cs, c)
	}
	sort.Slice(cs, func(i, j int) bool { return cs[i] < cs[j] })
	if len(cs) > 64 {
		cs = cs[:64]
	}
	conds := make([]*Term, 0, len(cs)+1)
	var neqs []*Term
	for _, c := range cs {
		eq := e.ts.Eq(t, e.ts.BV(t.w, c))
		conds = append(conds, eq)
		neqs = append(neqs, e.ts.Not(eq))
	}
	other := e.ts.And(neqs...)
	conds = append(conds, other)
	k := e.choose(conds)
	if k < len(cs) {
		v := e.ts.BV(t.w, cs[k])
		if signed {
			return v.sval()
		}
		return int64(v.val)
	}
	// value outside the syntactic candidates: the decision entry is the value itself
	ret := func(val uint64) int64 {
		v := e.ts.BV(t.w, val)
		if signed {
			return v.sval()
		}
		return int64(v.val)
	}
	if e.pos < len(e.prefix) {
		val := uint64(e.prefix[e.pos])
		e.pos++
		e.decisions = append(e.decisions, int(val))
		e.assume(e.ts.Eq(t, e.ts.BV(t.w, val)))
		return ret(val)
	}
	var vals []uint64
	var lits []Lit
	complete := false
	for n := 0; n < 64; n++ {
		r := e.sol.Check(lits...)
		if r == "unsat" {
			complete = true
			break
		}
		if r != "sat" {
			break
		}
		m := e.sol.Values(varsOf(t))
		val := evalTerm(t, m)
		vals = append(vals, val)
		lits = append(lits, Lit{e.ts.Eq(t, e.ts.BV(t.w, val)), true})
	}
	if !complete {
		e.stats.OutOfBound["concretize: value set not enumerated completely"]++
	}
	if len(vals) == 0 {
		panic(pathEnd{"concretize: no model"})
	}
	e.stats.Forks += len(vals) - 1
	for _, v := range vals[1:] {
		np := make([]int, len(e.decisions)+1)
		copy(np, e.decisions)
		np[len(e.decisions)] = int(v)
		*e.pending = append(*e.pending, np)
	}
	e.decisions = append(e.decisions, int(vals[0]))
	e.pos++
	e.assume(e.ts.Eq(t, e.ts.BV(t.w, vals[0])))
	return ret(vals[0])
}

func collectConsts(t *Term, out map[uint64]bool, depth int) {
	if depth > 40 {
		return
	}
	switch t.op {
	case "const":
		out[t.val] = true
	case "ite":
		collectConsts(t.args[1], out, depth+1)
		collectConsts(t.args[2], out, depth+1)
	}
}

func varsOf(t *Term) []*Term {
	seen := map[int]bool{}
	var out []*Term
	var rec func(*Term)
	rec = func(t *Term) {
		if seen[t.id] {
			return
		}
		seen[t.id] = true
		if t.op == "var" {
			out = append(out, t)
		}
		for _, a := range t.args {
			rec(a)
		}
	}
	rec(t)
	return out
}

// evalTerm evaluates t under a model (missing vars = 0).
func evalTerm(t *Term, m map[string]uint64) uint64 {
	memo := map[int]uint64{}
	var ev func(t *Term) uint64
	ev = func(t *Term) uint64 {
		if v, ok := memo[t.id]; ok {
			return v
		}
		var r uint64
		switch t.op {
		case "const":
			r = t.val
		case "var":
			r = m[t.name] & maskB(t.w)
		case "not":
			r = 1 - ev(t.args[0])
		case "and":
			r = 1
			for _, a := range t.args {
				if ev(a) == 0 {
					r = 0
				}
			}
		case "or":
			r = 0
			for _, a := range t.args {
				if ev(a) == 1 {
					r = 1
				}
			}
		case "ite":
			if ev(t.args[0]) == 1 {
				r = ev(t.args[1])
			} else {
				r = ev(t.args[2])
			}
		case "=":
			if ev(t.args[0]) == ev(t.args[1]) {
				r = 1
			}
		case "zext":
			r = ev(t.args[0])
		case "sext":
			r = uint64(sext64(t.args[0].w, ev(t.args[0]))) & mask(t.w)
		case "extract":
			r = (ev(t.args[0]) >> uint(t.x2)) & mask(t.w)
		case "bvnot":
			r = ^ev(t.args[0]) & mask(t.w)
		case "bvneg":
			r = -ev(t.args[0]) & mask(t.w)
		case "bvult", "bvule", "bvslt", "bvsle":
			if foldCmp(t.op, t.args[0].w, ev(t.args[0]), ev(t.args[1])) {
				r = 1
			}
		default:
			r = foldBin(t.op, t.w, ev(t.args[0]), ev(t.args[1]))
		}
		memo[t.id] = r
		return r
	}
	return ev(t)
}

func maskB(w int) uint64 {
	if w == 0 {
		return 1
	}
	return mask(w)
}

func (e *Exec) outOfBound(reason string) {
	e.stats.OutOfBound[reason]++
	panic(pathEnd{"out of bound: " + reason})
}

func (e *Exec) unsupported(what string) {
	e.stats.Unsupported[what]++
	panic(pathEnd{"unsupported: " + what})
}

// model extracts a replay vector from the solver's current model.
func (e *Exec) model() []ReplayVal {
	var vars []*Term
	for _, in := range e.inputs {
		for _, t := range in.terms {
			if t.op == "var" {
				vars = append(vars, t)
			}
		}
	}
	m := e.sol.Values(vars)
	var out []ReplayVal
	for _, in := range e.inputs {
		rv := ReplayVal{Kind: in.Kind, Label: in.Label}
		switch in.Kind {
		case "string", "bytes":
			rv.Bytes = make([]int, len(in.terms))
			var sb strings.Builder
			for i, t := range in.terms {
				rv.Bytes[i] = int(evalTerm(t, m))
				sb.WriteString(printableByte(byte(rv.Bytes[i])))
			}
			rv.Str = sb.String()
		case "len", "choice", "param", "cfg":
			rv.Int = in.conc
		default:
			t := in.terms[0]
			v := evalTerm(t, m)
			switch in.Kind {
			case "int8", "int16", "int32", "int":
				rv.Int = e.ts.BV(t.w, v).sval()
			default:
				rv.Int = int64(v)
			}
		}
		out = append(out, rv)
	}
	return out
}

func printableByte(b byte) string {
	if b >= 0x20 && b < 0x7f && b != '\\' {
		return string(rune(b))
	}
	return fmt.Sprintf("\\x%02x", b)
}

// assertObl checks one obligation on the current path.
func (e *Exec) assertObl(c *Term, msg string) {
	if e.concrete {
		if !c.IsConst() {
			panic(engineErr{"concrete run reached a symbolic assertion"})
		}
		if c.IsFalse() {
			e.concFails = append(e.concFails, msg)
		}
		return
	}
	e.stats.Obligations++
	ob := &Obligation{Harness: e.harness, Cfg: e.cfg, Msg: msg, Pos: e.curPos}
	if c.IsTrue() {
		ob.Status = "discharged"
		e.stats.Discharged++
		e.obls = append(e.obls, ob)
		return
	}
	var r string
	if c.IsFalse() {
		r = e.sol.CheckObligation()
	} else {
		r = e.sol.CheckObligation(Lit{c, true})
	}
	switch r {
	case "unsat":
		ob.Status = "discharged"
		e.stats.Discharged++
	case "sat":
		ob.Status = "violated"
		ob.Model = e.model()
		ob.Prefix = append([]int(nil), e.decisions...)
		ob.MapOrder = e.mapOrder
		e.stats.Violated++
	default:
		ob.Status = "unknown"
		e.stats.Unknown++
	}
	e.obls = append(e.obls, ob)
	// a concretely false assertion: the violation is recorded and the path goes on
	// (like a native run), so that later assertions and cover points are still seen
	if c.IsFalse() {
		return
	}
	// otherwise continue under the assumption that the assertion holds
	if !e.feasible(c, false) {
		panic(pathEnd{"assert: nothing left"})
	}
	e.assume(c)
}

// panicObl records an unexpected panic escaping the harness on a feasible path.
func (e *Exec) panicObl(msg string) {
	e.stats.Obligations++
	ob := &Obligation{Harness: e.harness, Cfg: e.cfg, Msg: "unexpected panic: " + msg, Pos: e.curPos}
	r := e.sol.Check()
	switch r {
	case "sat":
		ob.Status = "violated"
		ob.Model = e.model()
		ob.Prefix = append([]int(nil), e.decisions...)
		e.stats.Violated++
	case "unsat":
		ob.Status = "discharged"
		e.stats.Discharged++
	default:
		ob.Status = "unknown"
		e.stats.Unknown++
	}
	e.obls = append(e.obls, ob)
}
