package main

// Symbolic front-ends of the scalar operators: whenever an operand is a
// *Term (or *symStr) the operation is built as an SMT term with Go's exact
// machine semantics (wrap-around, signed/unsigned by static type).

import (
	"fmt"
	"go/token"
	"go/types"
)

// engineErr: the encoder cannot handle something (path becomes undischarged).
type engineErr struct{ msg string }

// rtErr: a Go run-time panic of the target program (index out of range, nil
// dereference, failed type assertion, …).
type rtErr string

func (e rtErr) Error() string   { return string(e) }
func (e rtErr) RuntimeError()   {}
func (e engineErr) Error() string { return e.msg }

func isSym(v value) bool {
	switch v.(type) {
	case *Term, *symStr:
		return true
	}
	return false
}

func basicInfo(t types.Type) (w int, signed bool, ok bool) {
	b, isB := t.Underlying().(*types.Basic)
	if !isB {
		return 0, false, false
	}
	switch b.Kind() {
	case types.Bool, types.UntypedBool:
		return 0, false, true
	case types.Int, types.Int64, types.UntypedInt:
		return 64, true, true
	case types.Int8:
		return 8, true, true
	case types.Int16:
		return 16, true, true
	case types.Int32, types.UntypedRune:
		return 32, true, true
	case types.Uint, types.Uint64, types.Uintptr:
		return 64, false, true
	case types.Uint8:
		return 8, false, true
	case types.Uint16:
		return 16, false, true
	case types.Uint32:
		return 32, false, true
	}
	return 0, false, false
}

func toTerm(ts *TermStore, v value) *Term {
	switch v := v.(type) {
	case *Term:
		return v
	case bool:
		return ts.Bool(v)
	case int:
		return ts.BV(64, uint64(v))
	case int8:
		return ts.BV(8, uint64(v))
	case int16:
		return ts.BV(16, uint64(v))
	case int32:
		return ts.BV(32, uint64(v))
	case int64:
		return ts.BV(64, uint64(v))
	case uint:
		return ts.BV(64, uint64(v))
	case uint8:
		return ts.BV(8, uint64(v))
	case uint16:
		return ts.BV(16, uint64(v))
	case uint32:
		return ts.BV(32, uint64(v))
	case uint64:
		return ts.BV(64, v)
	case uintptr:
		return ts.BV(64, uint64(v))
	}
	panic(engineErr{fmt.Sprintf("toTerm: %T", v)})
}

func toTermLike(ts *TermStore, v value, w int) *Term {
	t := toTerm(ts, v)
	if t.w != w {
		panic(engineErr{fmt.Sprintf("toTermLike: width %d vs %d", t.w, w)})
	}
	return t
}

// fromTerm turns a constant term back into the Go-typed concrete value for
// static type t; non-constant terms stay terms.
func fromTerm(t types.Type, x *Term) value {
	if !x.IsConst() {
		return x
	}
	b, ok := t.Underlying().(*types.Basic)
	if !ok {
		panic(engineErr{"fromTerm: non-basic type " + t.String()})
	}
	switch b.Kind() {
	case types.Bool, types.UntypedBool:
		return x.val == 1
	case types.Int, types.UntypedInt:
		return int(x.sval())
	case types.Int8:
		return int8(x.sval())
	case types.Int16:
		return int16(x.sval())
	case types.Int32, types.UntypedRune:
		return int32(x.sval())
	case types.Int64:
		return x.sval()
	case types.Uint:
		return uint(x.val)
	case types.Uint8:
		return uint8(x.val)
	case types.Uint16:
		return uint16(x.val)
	case types.Uint32:
		return uint32(x.val)
	case types.Uint64:
		return x.val
	case types.Uintptr:
		return uintptr(x.val)
	}
	panic(engineErr{"fromTerm: kind " + b.String()})
}

func symBinop(ex *Exec, op token.Token, t types.Type, x, y value) value {
	ts := ex.ts
	// strings
	if b, ok := t.Underlying().(*types.Basic); ok && b.Info()&types.IsString != 0 {
		switch op {
		case token.ADD:
			xs, ys := strBytes(ts, x), strBytes(ts, y)
			out := make([]*Term, 0, len(xs)+len(ys))
			out = append(out, xs...)
			out = append(out, ys...)
			return mkStr(out)
		case token.EQL:
			return equalsV(ex, t, x, y)
		case token.NEQ:
			return fromBoolTerm(ts.Not(toBoolTerm(ts, equalsV(ex, t, x, y))))
		case token.LSS, token.LEQ, token.GTR, token.GEQ:
			return fromBoolTerm(strCompare(ex, op, x, y))
		}
		panic(engineErr{"symBinop string " + op.String()})
	}
	w, signed, ok := basicInfo(t)
	if !ok {
		panic(engineErr{"symBinop on " + t.String()})
	}
	if w == 0 {
		a, b := toTerm(ts, x), toTerm(ts, y)
		switch op {
		case token.EQL:
			return fromBoolTerm(ts.Eq(a, b))
		case token.NEQ:
			return fromBoolTerm(ts.Not(ts.Eq(a, b)))
		case token.AND:
			return fromBoolTerm(ts.And(a, b))
		case token.OR:
			return fromBoolTerm(ts.Or(a, b))
		}
		panic(engineErr{"symBinop bool " + op.String()})
	}
	a := toTerm(ts, x)
	b := toTerm(ts, y)
	if op == token.SHL || op == token.SHR {
		// shift count may have another width; Go: count >= width gives 0 / sign fill
		if b.w != w {
			if b.w < w {
				b = ts.ZExt(b, w)
			} else {
				hi := ts.Extract(b, b.w-1, w)
				lo := ts.Extract(b, w-1, 0)
				b = ts.Ite(ts.Eq(hi, ts.BV(hi.w, 0)), lo, ts.BV(w, uint64(w)))
			}
		}
		switch {
		case op == token.SHL:
			return fromTerm(t, ts.Bin("bvshl", a, b))
		case signed:
			return fromTerm(t, ts.Bin("bvashr", a, b))
		default:
			return fromTerm(t, ts.Bin("bvlshr", a, b))
		}
	}
	if a.w != b.w {
		panic(engineErr{fmt.Sprintf("symBinop width %d/%d for %s", a.w, b.w, t)})
	}
	switch op {
	case token.ADD:
		return fromTerm(t, ts.Add(a, b))
	case token.SUB:
		return fromTerm(t, ts.Sub(a, b))
	case token.MUL:
		return fromTerm(t, ts.Mul(a, b))
	case token.QUO, token.REM:
		if ex.branch(ts.Eq(b, ts.BV(w, 0))) {
			panic(rtErr("runtime error: integer divide by zero"))
		}
		name := "bvudiv"
		if op == token.REM {
			name = "bvurem"
		}
		if signed {
			name = "bvsdiv"
			if op == token.REM {
				name = "bvsrem"
			}
		}
		return fromTerm(t, ts.Bin(name, a, b))
	case token.AND:
		return fromTerm(t, ts.Bin("bvand", a, b))
	case token.OR:
		return fromTerm(t, ts.Bin("bvor", a, b))
	case token.XOR:
		return fromTerm(t, ts.Bin("bvxor", a, b))
	case token.AND_NOT:
		return fromTerm(t, ts.Bin("bvand", a, ts.BvNot(b)))
	case token.EQL:
		return fromBoolTerm(ts.Eq(a, b))
	case token.NEQ:
		return fromBoolTerm(ts.Not(ts.Eq(a, b)))
	case token.LSS:
		if signed {
			return fromBoolTerm(ts.Slt(a, b))
		}
		return fromBoolTerm(ts.Ult(a, b))
	case token.LEQ:
		if signed {
			return fromBoolTerm(ts.Sle(a, b))
		}
		return fromBoolTerm(ts.Ule(a, b))
	case token.GTR:
		if signed {
			return fromBoolTerm(ts.Slt(b, a))
		}
		return fromBoolTerm(ts.Ult(b, a))
	case token.GEQ:
		if signed {
			return fromBoolTerm(ts.Sle(b, a))
		}
		return fromBoolTerm(ts.Ule(b, a))
	}
	panic(engineErr{"symBinop int " + op.String()})
}

// strCompare builds the lexicographic comparison of two strings.
func strCompare(ex *Exec, op token.Token, x, y value) *Term {
	ts := ex.ts
	xs, ys := strBytes(ts, x), strBytes(ts, y)
	n := len(xs)
	if len(ys) < n {
		n = len(ys)
	}
	// lt: exists i: prefix equal and xs[i] < ys[i], or all n equal and len(xs) < len(ys)
	lt := ts.Bool(len(xs) < len(ys))
	eq := ts.Bool(len(xs) == len(ys))
	for i := n - 1; i >= 0; i-- {
		e := ts.Eq(xs[i], ys[i])
		lt = ts.Or(ts.Ult(xs[i], ys[i]), ts.And(e, lt))
		eq = ts.And(e, eq)
	}
	switch op {
	case token.LSS:
		return lt
	case token.LEQ:
		return ts.Or(lt, eq)
	case token.GTR:
		return ts.Not(ts.Or(lt, eq))
	case token.GEQ:
		return ts.Not(lt)
	}
	panic(engineErr{"strCompare"})
}

func symUnop(ex *Exec, op token.Token, t types.Type, x *Term) value {
	ts := ex.ts
	switch op {
	case token.NOT:
		return fromBoolTerm(ts.Not(x))
	case token.SUB:
		return fromTerm(t, ts.Neg(x))
	case token.XOR:
		return fromTerm(t, ts.BvNot(x))
	}
	panic(engineErr{"symUnop " + op.String()})
}

// symConvInt converts a scalar term between integer types.
func symConvInt(ex *Exec, tDst, tSrc types.Type, x *Term) value {
	ts := ex.ts
	wd, _, ok1 := basicInfo(tDst)
	_, ss, ok2 := basicInfo(tSrc)
	if !ok1 || !ok2 || wd == 0 || x.w == 0 {
		panic(engineErr{fmt.Sprintf("symConv %s -> %s", tSrc, tDst)})
	}
	var r *Term
	switch {
	case wd == x.w:
		r = x
	case wd < x.w:
		r = ts.Extract(x, wd-1, 0)
	case ss:
		r = ts.SExt(x, wd)
	default:
		r = ts.ZExt(x, wd)
	}
	return fromTerm(tDst, r)
}

var addTok = token.ADD

func termByte(b *Term) value {
	if b.IsConst() {
		return uint8(b.val)
	}
	return b
}

func mustDeref(t types.Type) types.Type {
	if p, ok := t.Underlying().(*types.Pointer); ok {
		return p.Elem()
	}
	panic(engineErr{"mustDeref: not a pointer: " + t.String()})
}

// symConv handles conversions whose operand is symbolic.
func symConv(ex *Exec, tDst, tSrc types.Type, x value) (value, bool) {
	switch x := x.(type) {
	case *Term:
		if _, ok := tDst.Underlying().(*types.Basic); ok {
			if b := tDst.Underlying().(*types.Basic); b.Info()&types.IsString != 0 {
				// string(byte-sized integer): one byte below 0x80, two-byte UTF-8 above
				if x.w != 8 {
					ex.unsupported("integer->string conversion of a symbolic value wider than a byte")
				}
				ts := ex.ts
				if ex.branch(ts.Ult(x, ts.BV(8, 0x80))) {
					return mkStr([]*Term{x}), true
				}
				hi := ts.Bin("bvor", ts.BV(8, 0xC0), ts.Bin("bvlshr", x, ts.BV(8, 6)))
				lo := ts.Bin("bvor", ts.BV(8, 0x80), ts.Bin("bvand", x, ts.BV(8, 0x3F)))
				return mkStr([]*Term{hi, lo}), true
			}
			return symConvInt(ex, tDst, tSrc, x), true
		}
	case *symStr:
		switch d := tDst.Underlying().(type) {
		case *types.Basic:
			if d.Info()&types.IsString != 0 {
				return x, true
			}
		case *types.Slice:
			if eb, ok := d.Elem().Underlying().(*types.Basic); ok && eb.Kind() == types.Byte {
				out := make([]value, len(x.b))
				for i, b := range x.b {
					out[i] = termByte(b)
				}
				return out, true
			}
			ex.unsupported("[]rune(symbolic string)")
		}
	}
	return nil, false
}

var sizeClasses = []int64{0, 8, 16, 24, 32, 48, 64, 80, 96, 112, 128, 144, 160, 176, 192, 208, 224, 240, 256, 288, 320, 352, 384, 416, 448, 480, 512, 576, 640, 704, 768, 896, 1024, 1152, 1280, 1408, 1536, 1792, 2048, 2304, 2688, 3072, 3200, 3456, 4096, 4864, 5120, 5376, 6144, 6528, 6784, 6912, 8192, 9472, 9728, 10240, 10880, 12288, 13568, 14336, 16384, 18432, 19072, 20480, 21760, 24576, 27264, 28672, 32768}

func roundupsize(n int64) int64 {
	if n <= 32768 {
		for _, c := range sizeClasses {
			if c >= n {
				return c
			}
		}
	}
	const page = 8192
	return (n + page - 1) / page * page
}

// growCap mirrors runtime.growslice's capacity computation (go1.22+).
func growCap(oldCap, newLen int, elemSize int64) int {
	newcap := oldCap
	doublecap := newcap + newcap
	if newLen > doublecap {
		newcap = newLen
	} else {
		const threshold = 256
		if oldCap < threshold {
			newcap = doublecap
		} else {
			for {
				newcap += (newcap + 3*threshold) >> 2
				if uint(newcap) >= uint(newLen) {
					break
				}
			}
		}
	}
	if elemSize <= 0 {
		return newcap
	}
	mem := roundupsize(int64(newcap) * elemSize)
	return int(mem / elemSize)
}

func growAppend(arg0, extra []value, elemSize int64, zeroElem func() value) []value {
	n := len(arg0) + len(extra)
	if n <= cap(arg0) {
		s := arg0[:n]
		copy(s[len(arg0):], extra)
		return s
	}
	nc := growCap(cap(arg0), n, elemSize)
	s := make([]value, nc)
	copy(s, arg0)
	copy(s[len(arg0):], extra)
	for i := n; i < nc; i++ {
		s[i] = zeroElem()
	}
	return s[:n]
}
