package main

// `ruxsym check <property> <tier>`: run every harness of a property, replay
// counterexamples natively, validate the translator on path witnesses, write
// the evidence file, print VIOLATION / KNOWN-FINDING lines.

import (
	"bufio"
	"crypto/sha1"
	"encoding/json"
	"fmt"
	"os"
	"os/exec"
	"path/filepath"
	"sort"
	"strconv"
	"strings"
	"time"
)

type HarnessSpec struct {
	Pkg       string
	Name      string
	Quick     map[string]int
	Thorough  map[string]int
	Cfgs      []int // explicit configuration indices (instead of CfgBase/NCfg/Sample)
	CfgBase   int // first configuration index
	NCfgQ     int // number of configurations, quick (0 = 1)
	NCfgT     int
	SampleQ   int // if >0: sample this many configurations (seeded) instead of all
	SampleT   int
	Covers    []string // mandatory cover points (vacuity guard)
	Witness   string   // known-finding id this harness is the witness of ("" = ordinary)
	MaxPaths  int
}

type PropSpec struct {
	Race        bool // native replays run under the race detector, one process per replay
	ID          string
	Harnesses   []HarnessSpec
	Assumptions []string
	Bounds      map[string]string
	Symbolic    []string
	Enumerated  []string
}

type KnownFinding struct {
	Property string `json:"property"`
	ID       string `json:"id"`
	Status   string `json:"status"` // known | fixed
	Harness  string `json:"harness,omitempty"`
	What     string `json:"what"`
	Site     string `json:"site,omitempty"`
	Commit   string `json:"commit,omitempty"`
	Witness  any    `json:"witness,omitempty"`
}

func loadKnown() []KnownFinding {
	var kf struct {
		Findings []KnownFinding `json:"findings"`
	}
	data, err := os.ReadFile(filepath.Join(verifDir, "known_findings.json"))
	if err != nil {
		return nil
	}
	json.Unmarshal(data, &kf)
	return kf.Findings
}

type replaySpec struct {
	Property string         `json:"property"`
	Package  string         `json:"package"`
	Harness  string         `json:"harness"`
	Cfg      int            `json:"cfg"`
	Params   map[string]int `json:"params"`
	Vals     []ReplayVal    `json:"vals"`
	Expect   string         `json:"expect"`
	MapOrder int            `json:"map_order"`
	Pos      string         `json:"pos,omitempty"`
	Prefix   []int          `json:"decisions,omitempty"`
}

func writeReplay(dir string, rs replaySpec) string {
	os.MkdirAll(dir, 0o755)
	b, _ := json.MarshalIndent(rs, "", " ")
	h := sha1.Sum(b)
	p := filepath.Join(dir, fmt.Sprintf("%x.json", h[:6]))
	os.WriteFile(p, b, 0o644)
	return p
}

type nativeResult struct {
	File     string   `json:"file"`
	Status   string   `json:"status"`
	Stopped  string   `json:"stopped"`
	Failures []string `json:"failures"`
	Observed []string `json:"observed"`
	Covers   []string `json:"covers"`
}

// nativeReplay runs the replay files of one package natively (real build of
// /repo + overlay harness) and returns the status per file.
var replayRace bool

func nativeReplay(pkgDir string, files []string) (map[string]nativeResult, string, error) {
	if replayRace && len(files) > 1 {
		// the race detector reports per process: one replay per process
		all := map[string]nativeResult{}
		outs := ""
		for _, f := range files {
			r, out, err := nativeReplay(pkgDir, []string{f})
			if err != nil {
				return all, out, err
			}
			outs += out
			for k, v := range r {
				all[k] = v
			}
		}
		return all, outs, nil
	}
	res := map[string]nativeResult{}
	if len(files) == 0 {
		return res, "", nil
	}
	ov, _, err := buildOverlay(true)
	if err != nil {
		return nil, "", err
	}
	tmp, err := os.MkdirTemp("", "ruxsym-replay-")
	if err != nil {
		return nil, "", err
	}
	defer os.RemoveAll(tmp)
	repl := map[string]string{}
	k := 0
	for virt, src := range ov {
		k++
		real := filepath.Join(tmp, fmt.Sprintf("f%d_%s", k, filepath.Base(virt)))
		if err := os.WriteFile(real, src, 0o644); err != nil {
			return nil, "", err
		}
		repl[virt] = real
	}
	ovJSON, _ := json.Marshal(map[string]any{"Replace": repl})
	ovPath := filepath.Join(tmp, "overlay.json")
	os.WriteFile(ovPath, ovJSON, 0o644)
	// the file list can be long: pass it through a file
	listPath := filepath.Join(tmp, "files.txt")
	os.WriteFile(listPath, []byte(strings.Join(files, ",")), 0o644)
	pkgPath := ruxPath + pkgDirs[pkgDir]
	args := []string{"test", "-vet=off", "-count=1", "-run", "^TestVerifReplay$", "-v", "-overlay", ovPath}
	if replayRace {
		args = append(args, "-race")
	}
	cmd := exec.Command("go", append(args, pkgPath)...)
	cmd.Dir = repoDir
	cmd.Env = append(os.Environ(), "GOFLAGS=-mod=mod", "GOPROXY=off", "GOSUMDB=off", "GOTOOLCHAIN=local",
		"VERIF_REPLAY="+strings.Join(files, ","), "GOCACHE="+goCache())
	out, err := cmd.CombinedOutput()
	sc := bufio.NewScanner(strings.NewReader(string(out)))
	sc.Buffer(make([]byte, 1<<20), 1<<26)
	for sc.Scan() {
		line := strings.TrimSpace(sc.Text())
		if strings.HasPrefix(line, "VERIF-REPLAY-JSON ") {
			var nr nativeResult
			if json.Unmarshal([]byte(strings.TrimPrefix(line, "VERIF-REPLAY-JSON ")), &nr) == nil {
				res[nr.File] = nr
			}
		}
	}
	if replayRace && strings.Contains(string(out), "WARNING: DATA RACE") {
		for k, v := range res {
			if v.Status != "REPRODUCED" {
				v.Status = "REPRODUCED"
				v.Failures = append(v.Failures, "race detector: WARNING: DATA RACE")
				res[k] = v
			}
		}
	}
	if len(res) == 0 {
		return res, string(out), fmt.Errorf("native replay produced no result: %v", err)
	}
	return res, string(out), nil
}

func goCache() string {
	if c := os.Getenv("GOCACHE"); c != "" {
		return c
	}
	out, err := exec.Command("go", "env", "GOCACHE").Output()
	if err == nil {
		return strings.TrimSpace(string(out))
	}
	return filepath.Join(os.TempDir(), "go-build")
}

func seedFromEnv() int64 {
	s := os.Getenv("VERIF_SEED")
	if s == "" {
		return 1
	}
	v, err := strconv.ParseInt(s, 10, 64)
	if err != nil {
		return 1
	}
	return v
}

// sampleCfgs picks k distinct configuration indices out of n (seeded LCG).
func sampleCfgs(n, k int, seed int64) []int {
	if k <= 0 || k >= n {
		out := make([]int, n)
		for i := range out {
			out[i] = i
		}
		return out
	}
	seen := map[int]bool{}
	var out []int
	x := uint64(seed)*6364136223846793005 + 1442695040888963407
	for len(out) < k {
		x = x*6364136223846793005 + 1442695040888963407
		c := int((x >> 33) % uint64(n))
		if !seen[c] {
			seen[c] = true
			out = append(out, c)
		}
	}
	sort.Ints(out)
	return out
}

type classKey struct{ harness, msg, pos string }

func deepName(p map[string]int) string {
	if s := paramStr(p); s != "" {
		return s
	}
	return "(larger configuration sample)"
}

func jobKey(j Job) string { return fmt.Sprintf("%s/%d/%s", j.Harness, j.Cfg, paramStr(j.Params)) }

func paramStr(p map[string]int) string {
	var ks []string
	for k := range p {
		ks = append(ks, k)
	}
	sort.Strings(ks)
	var sb strings.Builder
	for _, k := range ks {
		fmt.Fprintf(&sb, "%s=%d ", k, p[k])
	}
	return strings.TrimSpace(sb.String())
}

func cmdCheck(args []string) int {
	if len(args) < 2 {
		fmt.Fprintln(os.Stderr, "usage: ruxsym check <property> <quick|thorough>")
		return 2
	}
	prop, tier := args[0], args[1]
	if t := os.Getenv("VERIF_TIER"); t == "quick" || t == "thorough" {
		_ = t
	}
	spec, ok := propSpecs[prop]
	if !ok {
		fmt.Fprintln(os.Stderr, "no such property:", prop)
		return 2
	}
	seed := seedFromEnv()
	replayRace = spec.Race
	t0 := time.Now()
	w, err := loadWorld()
	if err != nil {
		fmt.Fprintln(os.Stderr, "BROKEN: cannot load /repo:", err)
		return 2
	}
	known := loadKnown()
	knownByHarness := map[string]KnownFinding{}
	for _, k := range known {
		if k.Status == "known" && k.Harness != "" {
			knownByHarness[k.Harness] = k
		}
	}

	var jobs []Job
	var deep [][][]Job // level -> harness -> jobs
	nSkipped := 0
	hspecOf := map[string]HarnessSpec{}
	for _, h := range spec.Harnesses {
		if w.pkgs[h.Pkg] == nil || w.pkgs[h.Pkg].Func(h.Name) == nil {
			if len(excludedHarness) > 0 {
				fmt.Printf("UNDISCHARGED property=%s count=1 reason=harness %s is left out: its source file does not compile against this tree\n", prop, h.Name)
				nSkipped++
				continue
			}
			fmt.Fprintln(os.Stderr, "BROKEN: harness missing:", h.Name)
			return 2
		}
		hspecOf[h.Name] = h
		mk := func(params map[string]int, n, k int) []Job {
			if n == 0 {
				n = 1
			}
			cfgList := sampleCfgs(n, k, seed)
			if len(h.Cfgs) > 0 {
				cfgList = h.Cfgs
			}
			var out []Job
			for _, c := range cfgList {
				p := map[string]int{}
				for kk, v := range params {
					p[kk] = v
				}
				out = append(out, Job{Pkg: h.Pkg, Harness: h.Name, Cfg: h.CfgBase + c, Params: p})
			}
			return out
		}
		quickJobs := mk(h.Quick, h.NCfgQ, h.SampleQ)
		jobs = append(jobs, quickJobs...)
		if tier == "thorough" {
			// Deeper bounds come after every quick-tier job, one level at a time
			// (each size parameter grows by one per level until it reaches the
			// thorough value; the last level also uses the thorough configuration
			// sample), harnesses interleaved within a level; all of them are
			// subject to the time budget.
			tp, tn, tk := h.Thorough, h.NCfgT, h.SampleT
			if tp == nil {
				tp = h.Quick
			}
			if tn == 0 {
				tn = h.NCfgQ
			}
			levels := 1
			for kk, v := range tp {
				if d := v - h.Quick[kk]; d > levels {
					levels = d
				}
			}
			seen := map[string]bool{}
			for _, j := range quickJobs {
				seen[jobKey(j)] = true
			}
			for lv := 1; lv <= levels; lv++ {
				params := map[string]int{}
				for kk, v := range tp {
					q, has := h.Quick[kk]
					if !has || v < q+lv || lv == levels {
						params[kk] = v
					} else {
						params[kk] = q + lv
					}
				}
				lj := mk(params, h.NCfgQ, h.SampleQ)
				if lv == levels {
					lj = mk(params, tn, tk)
				}
				var dj []Job
				for _, j := range lj {
					if !seen[jobKey(j)] {
						seen[jobKey(j)] = true
						j.Stage = lv
						dj = append(dj, j)
					}
				}
				for len(deep) < lv {
					deep = append(deep, nil)
				}
				deep[lv-1] = append(deep[lv-1], dj)
			}
		}
	}
	for _, level := range deep {
		for i := 0; ; i++ {
			any := false
			for _, dj := range level {
				if i < len(dj) {
					jobs = append(jobs, dj[i])
					any = true
				}
			}
			if !any {
				break
			}
		}
	}
	if len(jobs) == 0 {
		fmt.Printf("BROKEN property=%s: none of its harnesses compiles against this tree\n", prop)
		return 2
	}
	timeout := 10000
	maxPaths := 200000
	if tier == "thorough" {
		timeout = 60000
		maxPaths = 3000000
	}
	opts := RunOpts{WitnessPerJob: 2, MaxPaths: maxPaths, MaxInstr: 20_000_000, TimeoutMs: timeout, Solver: "z3", Workers: 16,
		Verbose: os.Getenv("RUXSYM_VERBOSE") != ""}
	if s := os.Getenv("RUXSYM_SOLVER"); s != "" {
		opts.Solver = s
	}
	if n, err := strconv.Atoi(os.Getenv("RUXSYM_WORKERS")); err == nil && n > 0 {
		opts.Workers = n
	}
	// thorough tier: every 25th obligation is re-answered by a second solver
	if tier == "thorough" {
		opts.Mirror, opts.MirrorEvery = "cvc5", 25
	}
	if m := os.Getenv("RUXSYM_MIRROR"); m != "" {
		opts.Mirror = m
		if opts.MirrorEvery == 0 {
			opts.MirrorEvery = 25
		}
		if m == "none" {
			opts.Mirror = ""
		}
	}
	if n := 64/len(jobs) + 1; n > opts.WitnessPerJob {
		opts.WitnessPerJob = n
	}
	if tier == "thorough" {
		opts.WitnessPerJob = 130/len(jobs) + 2
	}
	budgetS := 0
	if tier == "thorough" {
		budgetS = 1800
		if b, err := strconv.Atoi(os.Getenv("RUXSYM_BUDGET_S")); err == nil && b > 0 {
			budgetS = b
		}
		opts.Deadline = t0.Add(time.Duration(budgetS) * time.Second)
	} else {
		// quick tier: a safety net far above the normal running time; a tree on which the
		// exploration blows up ends with what was found so far and the rest reported as not explored
		q := 900
		if b, err := strconv.Atoi(os.Getenv("RUXSYM_QUICK_BUDGET_S")); err == nil && b > 0 {
			q = b
		}
		opts.Deadline, opts.DeadlineAll = t0.Add(time.Duration(q)*time.Second), true
	}
	results := runJobs(w, jobs, opts)
	nDeep, nDeepDone := 0, 0
	deepAll, deepDone := map[string]int{}, map[string]int{}
	for _, r := range results {
		if r != nil && r.Job.Stage > 0 {
			k := r.Job.Harness + " " + paramStr(r.Job.Params)
			nDeep++
			deepAll[k]++
			if r.Complete {
				nDeepDone++
				deepDone[k]++
			}
		}
	}
	deepList := []string{}
	for k, n := range deepAll {
		deepList = append(deepList, fmt.Sprintf("%s: %d of %d configurations fully explored", k, deepDone[k], n))
	}
	sort.Strings(deepList)

	total := newJobStats()
	var samples []any
	violClasses := map[classKey]*Obligation{}
	violExtra := map[classKey][]*Obligation{} // further counterexamples of the same class (tried when the first does not reproduce)
	var classOrder []classKey
	undis := map[string]int{}
	incomplete := 0
	for _, r := range results {
		if r == nil {
			fmt.Fprintln(os.Stderr, "BROKEN: a worker died (solver missing?)")
			return 2
		}
		total.merge(r.Stats)
		if !r.Complete {
			incomplete++
		}
		if r.TimedOut && r.Job.Stage == 0 {
			undis[fmt.Sprintf("out of bound: the quick tier's time limit was reached before %s was fully explored", r.Job.Harness)]++
		} else if r.TimedOut {
			undis[fmt.Sprintf("out of bound: time budget used up before the deeper bound %v of %s was fully explored (the quick-tier bound of the same harness was)", deepName(r.Job.Params), r.Job.Harness)]++
		}
		for _, s := range r.Samples {
			if len(samples) < 4 {
				samples = append(samples, map[string]any{"harness": r.Job.Harness, "cfg": r.Job.Cfg, "params": r.Job.Params, "path_condition": s})
			}
		}
		for _, o := range r.Obls {
			switch o.Status {
			case "violated":
				k := classKey{o.Harness, o.Msg, o.Pos}
				if _, ok := violClasses[k]; !ok {
					violClasses[k] = o
					classOrder = append(classOrder, k)
				} else if len(violExtra[k]) < 5 {
					violExtra[k] = append(violExtra[k], o)
				}
			case "unknown":
				undis["solver unknown/timeout: "+o.Harness+": "+o.Msg]++
			}
		}
	}
	for k, v := range total.Unsupported {
		undis["unsupported: "+k] += v
	}
	for k, v := range total.OutOfBound {
		undis["out of bound: "+k] += v
	}
	for k, v := range undis {
		fmt.Printf("UNDISCHARGED property=%s count=%d reason=%s\n", prop, v, k)
	}

	// replay counterexamples natively
	replayDir := filepath.Join(verifDir, "replays", prop)
	byPkg := map[string][]string{}
	fileOf := map[classKey]string{}
	extraFiles := map[classKey][]string{}
	extraObl := map[string]*Obligation{}
	for _, k := range classOrder {
		for idx, o := range append([]*Obligation{violClasses[k]}, violExtra[k]...) {
			j := Job{Pkg: o.Pkg, Harness: o.Harness, Cfg: o.Cfg, Params: o.Params}
			rs := replaySpec{Property: prop, Package: j.Pkg, Harness: o.Harness, Cfg: o.Cfg, Params: j.Params, Vals: o.Model,
				Expect: o.Msg, Pos: o.Pos, Prefix: o.Prefix, MapOrder: o.MapOrder}
			p := writeReplay(replayDir, rs)
			if idx == 0 {
				fileOf[k] = p
			} else {
				extraFiles[k] = append(extraFiles[k], p)
				extraObl[p] = o
			}
			byPkg[j.Pkg] = append(byPkg[j.Pkg], p)
		}
	}
	nViol, nSpurious, nKnown := 0, 0, 0
	var violSamples []any
	for pkg, files := range byPkg {
		res, out, err := nativeReplay(pkg, files)
		if err != nil {
			fmt.Fprintln(os.Stderr, "replay failed:", err)
			fmt.Fprintln(os.Stderr, out)
			// cannot confirm: report nothing as violation
			for range files {
				nSpurious++
			}
			continue
		}
		for _, k := range classOrder {
			f := fileOf[k]
			r, ok := res[f]
			if !ok {
				continue
			}
			o := violClasses[k]
			if r.Status != "REPRODUCED" {
				// the first counterexample of the class did not reproduce: try the others
				for _, xf := range extraFiles[k] {
					if xr, ok := res[xf]; ok && xr.Status == "REPRODUCED" {
						os.Remove(f)
						f, r, o = xf, xr, extraObl[xf]
						break
					}
				}
			}
			for _, xf := range extraFiles[k] {
				if xf != f {
					os.Remove(xf)
				}
			}
			if r.Status == "REPRODUCED" {
				if kf, isKnown := knownByHarness[o.Harness]; isKnown {
					fmt.Printf("KNOWN-FINDING: property=%s %s %s (witness %s reproduced natively)\n", prop, kf.ID, kf.What, filepath.Base(f))
					nKnown++
					os.Remove(f)
					continue
				}
				fmt.Printf("VIOLATION property=%s replay=%s\n", prop, f)
				fmt.Printf("  harness=%s cfg=%d at %s: %s\n  native: %q\n", o.Harness, o.Cfg, o.Pos, o.Msg, r.Failures)
				nViol++
				if len(violSamples) < 5 {
					violSamples = append(violSamples, map[string]any{"harness": o.Harness, "msg": o.Msg, "pos": o.Pos, "inputs": o.Model})
				}
			} else {
				fmt.Printf("SPURIOUS property=%s harness=%s cfg=%d msg=%q (model did not reproduce natively: %s stopped=%q) inputs=%s\n", prop, o.Harness, o.Cfg, o.Msg, r.Status, r.Stopped, vecString(o.Model))
				nSpurious++
				os.Remove(f)
			}
		}
	}

	// vacuity guards
	for _, h := range spec.Harnesses {
		if w.pkgs[h.Pkg] == nil || w.pkgs[h.Pkg].Func(h.Name) == nil {
			continue
		}
		for _, c := range h.Covers {
			if total.Covers[c] == 0 {
				if nViol > 0 || total.Violated > 0 {
					continue // the harness did not get that far because the property is violated
				}
				if len(total.Unsupported) > 0 || len(total.OutOfBound) > 0 || incomplete > 0 {
					// paths were cut before they got there (code the engine cannot run, or a limit):
					// not a vacuous harness, and already reported as UNDISCHARGED
					fmt.Printf("UNDISCHARGED property=%s count=1 reason=cover point %q of %s not reached because paths were cut short (see the other UNDISCHARGED lines)\n", prop, c, h.Name)
					continue
				}
				fmt.Printf("BROKEN property=%s: mandatory cover point %q of %s never reached (vacuous harness)\n", prop, c, h.Name)
				return 2
			}
		}
	}


	// translation validation: witnesses of completed paths are executed natively
	// (real build) and by the engine in concrete mode; assertion outcomes,
	// cover points and observations must agree.
	nValidated, nMismatch := 0, 0
	{
		maxW := 48
		if tier == "thorough" {
			maxW = 120
		}
		if v := os.Getenv("RUXSYM_WITNESSES"); v != "" {
			maxW, _ = strconv.Atoi(v)
		}
		var all []Witness
		for round := 0; len(all) < maxW; round++ {
			added := false
			for _, r := range results {
				if round < len(r.Witnesses) && len(all) < maxW {
					all = append(all, r.Witnesses[round])
					added = true
				}
			}
			if !added {
				break
			}
		}
		if len(all) > 0 {
			tmpw, _ := os.MkdirTemp("", "ruxsym-wit-")
			defer os.RemoveAll(tmpw)
			wByPkg := map[string][]string{}
			wOf := map[string]Witness{}
			for _, wt := range all {
				f := writeReplay(tmpw, replaySpec{Property: prop, Package: wt.Job.Pkg, Harness: wt.Job.Harness, Cfg: wt.Job.Cfg, Params: wt.Job.Params, Vals: wt.Vec})
				wByPkg[wt.Job.Pkg] = append(wByPkg[wt.Job.Pkg], f)
				wOf[f] = wt
			}
			sol, err := NewSolver(opts.Solver, opts.TimeoutMs)
			if err == nil {
				defer sol.Close()
				for pkg, files := range wByPkg {
					saved := replayRace
					replayRace = false // validation compares assertion outcomes; no race detector needed
					nres, out, err := nativeReplay(pkg, files)
					replayRace = saved
					if err != nil {
						fmt.Fprintln(os.Stderr, "validation: native run failed:", err)
						if os.Getenv("RUXSYM_VERBOSE") != "" {
							fmt.Fprintln(os.Stderr, out)
						}
						continue
					}
					for _, f := range files {
						wt := wOf[f]
						nr, ok := nres[f]
						if !ok {
							continue
						}
						var pend [][]int
						st := newJobStats()
						cex := w.runPath(wt.Job, sol, nil, &pend, st, opts, wt.Vec)
						agree := len(nr.Failures) == 0 && len(cex.concFails) == 0 && nr.Stopped == "" && len(st.Unsupported) == 0 &&
							strings.Join(cex.coverSeq, "|") == strings.Join(wt.Covers, "|")
						if !cex.modeSplit {
							// harnesses that assert differently natively (verifSymbolic()) are compared on assertion outcomes only
							agree = agree && strings.Join(nr.Covers, "|") == strings.Join(cex.coverSeq, "|") &&
								strings.Join(nr.Observed, "|") == strings.Join(cex.events, "|")
						}
						if agree {
							nValidated++
						} else {
							nMismatch++
							fmt.Printf("VALIDATION-MISMATCH property=%s harness=%s cfg=%d native{stopped=%q failures=%q covers=%q observed=%q} engine{failures=%q covers=%q observed=%q unsupported=%v} symbolic{covers=%q} vector=%s\n",
								prop, wt.Job.Harness, wt.Job.Cfg, nr.Stopped, nr.Failures, nr.Covers, nr.Observed, cex.concFails, cex.coverSeq, cex.events, st.Unsupported, wt.Covers, vecString(wt.Vec))
						}
					}
				}
			}
		}
	}

	// evidence
	var funcs, intr []string
	for f := range total.Funcs {
		funcs = append(funcs, f)
	}
	for f := range total.Intrinsics {
		intr = append(intr, f)
	}
	sort.Strings(funcs)
	sort.Strings(intr)
	if len(samples) == 0 {
		samples = append(samples, map[string]any{"note": "all paths concrete", "jobs": len(jobs)})
	}
	samples = append(samples, violSamples...)
	solverMu.Lock()
	solverInfo := map[string]any{"solver": opts.Solver, "queries": totQueries, "total_s": totSolverTime.Seconds(),
		"max_query_s": maxSolverTime.Seconds(), "error_lines": totSolverErrors, "timeout_ms": opts.TimeoutMs,
		"second_solver": opts.Mirror, "obligations_rechecked_by_second_solver": totRechecked, "disagreements": totDisagreed}
	solverMu.Unlock()
	undisList := []string{}
	for k, v := range undis {
		undisList = append(undisList, fmt.Sprintf("%s (x%d)", k, v))
	}
	sort.Strings(undisList)
	ev := map[string]any{
		"property_id": prop,
		"tier":        tier,
		"seed":        seed,
		"level":       "model_checking",
		"wall_s":      time.Since(t0).Seconds(),
		"violations":  nViol,
		"assumptions": spec.Assumptions,
		"coverage": map[string]any{
			"states":                        total.Paths,
			"transitions":                   total.Instrs,
			"traces_validated_against_impl": nValidated,
			"validation_mismatches":         nMismatch,
			"counterexamples_replayed":      nViol + nSpurious + nKnown,
			"samples":                       samples,
			"obligations":                   total.Obligations,
			"discharged":                    total.Discharged,
			"violated_symbolically":         total.Violated,
			"undischarged":                  undisList,
			"spurious":                      nSpurious,
			"known_findings_reproduced":     nKnown,
			"jobs":                          len(jobs),
			"jobs_incomplete":               incomplete,
			"deeper_bound_jobs":             nDeep,
			"deeper_bound_jobs_completed":   nDeepDone,
			"deeper_bound_time_budget_s":    budgetS,
			"deeper_bounds":                 deepList,
			"forks":                         total.Forks,
			"functions_encoded":             funcs,
			"intrinsics_used":               intr,
			"bounds":                        spec.Bounds,
			"symbolic_dimensions":           spec.Symbolic,
			"enumerated_dimensions":         spec.Enumerated,
			"cover_points":                  total.Covers,
			"solver":                        solverInfo,
			"load_s":                        w.loadDur.Seconds(),
			"exhaustive":                    false,
			"explanation": "bounded symbolic execution of the SSA of /repo's current working tree; every obligation is pc ∧ ¬assertion checked by the SMT solver; " +
				"traces_validated_against_impl counts path witnesses (solver models of completed paths) executed both natively (real build of /repo) and by the engine in concrete mode with identical assertion outcomes, cover points and observations",
		},
	}
	// (trial runs against a scratch tree - seeded changes, refactorings - leave the evidence alone)
	if os.Getenv("RUXSYM_NO_EVIDENCE") == "" {
		os.MkdirAll(filepath.Join(verifDir, "evidence"), 0o755)
		b, _ := json.MarshalIndent(ev, "", " ")
		os.WriteFile(filepath.Join(verifDir, "evidence", prop+".json"), b, 0o644)
	}
	fmt.Printf("property=%s tier=%s jobs=%d paths=%d instrs=%d obligations=%d discharged=%d violated=%d(reproduced %d, known %d, spurious %d) undischarged=%d solver_queries=%d solver_s=%.1f wall_s=%.1f\n",
		prop, tier, len(jobs), total.Paths, total.Instrs, total.Obligations, total.Discharged, total.Violated, nViol, nKnown, nSpurious,
		len(undis), totQueries, totSolverTime.Seconds(), time.Since(t0).Seconds())
	if nViol > 0 {
		return 1
	}
	return 0
}


func vecString(v []ReplayVal) string {
	b, _ := json.Marshal(v)
	if len(b) > 600 {
		return string(b[:600]) + "…"
	}
	return string(b)
}


// cmdReplay re-runs one recorded counterexample natively against the current
// tree: exit 1 (and a VIOLATION line) if it still reproduces, 0 otherwise.
func cmdReplay(args []string) int {
	if len(args) < 2 {
		fmt.Fprintln(os.Stderr, "usage: ruxsym replay <property> <replay.json>")
		return 2
	}
	prop, file := args[0], args[1]
	data, err := os.ReadFile(file)
	if err != nil {
		fmt.Fprintln(os.Stderr, err)
		return 2
	}
	var rs replaySpec
	if err := json.Unmarshal(data, &rs); err != nil {
		fmt.Fprintln(os.Stderr, err)
		return 2
	}
	if spec, ok := propSpecs[prop]; ok {
		replayRace = spec.Race
	}
	abs, _ := filepath.Abs(file)
	res, out, err := nativeReplay(rs.Package, []string{abs})
	if err != nil {
		fmt.Fprintln(os.Stderr, "replay failed:", err)
		fmt.Fprintln(os.Stderr, out)
		return 2
	}
	r := res[abs]
	fmt.Printf("replay %s: harness=%s cfg=%d expect=%q -> %s stopped=%q failures=%q\n", filepath.Base(file), rs.Harness, rs.Cfg, rs.Expect, r.Status, r.Stopped, r.Failures)
	if r.Status == "REPRODUCED" {
		fmt.Printf("VIOLATION property=%s replay=%s\n", prop, abs)
		return 1
	}
	return 0
}
