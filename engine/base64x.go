package main

// encoding/base64 over symbolic bytes.  The package's initialiser is not run
// (its tables would be 256-entry lookups anyway); the four standard encodings
// are host objects and EncodeToString / DecodeString are bit-vector formulas:
// a 6-bit group is mapped to its letter (and back) by range arithmetic, not by
// a table.  Decoding follows the package's non-strict mode: '=' padding must
// be exact for the padded encodings, trailing bits are not checked; input that
// contains CR or LF (which the real decoder skips) is outside the model.

import (
	"encoding/base64"
	"strings"

	"golang.org/x/tools/go/ssa"
)

type b64enc struct {
	name   string
	url    bool
	padded bool
}

var b64encodings = map[string]*b64enc{
	"StdEncoding":    {"StdEncoding", false, true},
	"URLEncoding":    {"URLEncoding", true, true},
	"RawStdEncoding": {"RawStdEncoding", false, false},
	"RawURLEncoding": {"RawURLEncoding", true, false},
}

// base64Global: the value of encoding/base64's exported encodings.
func base64Global(g *ssa.Global) value {
	if g.Pkg == nil || g.Pkg.Pkg.Path() != "encoding/base64" {
		return nil
	}
	if e, ok := b64encodings[g.Name()]; ok {
		return &hostObj{kind: "b64", aux: e}
	}
	return nil
}

func b64of(fr *frame, v value) *b64enc {
	if h, ok := v.(*hostObj); ok && h != nil && h.kind == "b64" {
		return h.aux.(*b64enc)
	}
	fr.ex().unsupported("encoding/base64: an Encoding other than the four exported ones")
	return nil
}

func (e *b64enc) native() *base64.Encoding {
	switch e.name {
	case "URLEncoding":
		return base64.URLEncoding
	case "RawStdEncoding":
		return base64.RawStdEncoding
	case "RawURLEncoding":
		return base64.RawURLEncoding
	}
	return base64.StdEncoding
}

// letter: the character of a 6-bit value held in an 8-bit term.
func (e *b64enc) letter(ts *TermStore, v *Term) *Term {
	c62, c63 := uint64('+'), uint64('/')
	if e.url {
		c62, c63 = '-', '_'
	}
	bv := func(x uint64) *Term { return ts.BV(8, x) }
	return ts.Ite(ts.Ult(v, bv(26)), ts.Add(v, bv('A')),
		ts.Ite(ts.Ult(v, bv(52)), ts.Add(v, bv('a'-26)),
			ts.Ite(ts.Ult(v, bv(62)), ts.Sub(v, bv(52-'0')),
				ts.Ite(ts.Eq(v, bv(62)), bv(c62), bv(c63)))))
}

// sextet: (is a letter of the alphabet, its 6-bit value as an 8-bit term).
func (e *b64enc) sextet(ts *TermStore, c *Term) (*Term, *Term) {
	c62, c63 := uint64('+'), uint64('/')
	if e.url {
		c62, c63 = '-', '_'
	}
	bv := func(x uint64) *Term { return ts.BV(8, x) }
	up := ts.And(ts.Ule(bv('A'), c), ts.Ule(c, bv('Z')))
	lo := ts.And(ts.Ule(bv('a'), c), ts.Ule(c, bv('z')))
	dg := ts.And(ts.Ule(bv('0'), c), ts.Ule(c, bv('9')))
	e62, e63 := ts.Eq(c, bv(c62)), ts.Eq(c, bv(c63))
	valid := ts.Or(up, lo, dg, e62, e63)
	val := ts.Ite(up, ts.Sub(c, bv('A')),
		ts.Ite(lo, ts.Add(ts.Sub(c, bv('a')), bv(26)),
			ts.Ite(dg, ts.Add(ts.Sub(c, bv('0')), bv(52)),
				ts.Ite(e62, bv(62), bv(63)))))
	return valid, val
}

func (e *b64enc) encode(ts *TermStore, src []*Term) []*Term {
	bv := func(x uint64) *Term { return ts.BV(8, x) }
	shr := func(a *Term, n uint64) *Term { return ts.Bin("bvlshr", a, bv(n)) }
	shl := func(a *Term, n uint64) *Term { return ts.Bin("bvshl", a, bv(n)) }
	and := func(a *Term, m uint64) *Term { return ts.Bin("bvand", a, bv(m)) }
	or := func(a, b *Term) *Term { return ts.Bin("bvor", a, b) }
	var out []*Term
	for i := 0; i < len(src); i += 3 {
		b0 := src[i]
		b1, b2 := bv(0), bv(0)
		n := len(src) - i
		if n > 1 {
			b1 = src[i+1]
		}
		if n > 2 {
			b2 = src[i+2]
		}
		out = append(out, e.letter(ts, shr(b0, 2)), e.letter(ts, or(shl(and(b0, 3), 4), shr(b1, 4))))
		switch {
		case n > 2:
			out = append(out, e.letter(ts, or(shl(and(b1, 15), 2), shr(b2, 6))), e.letter(ts, and(b2, 63)))
		case n == 2:
			out = append(out, e.letter(ts, shl(and(b1, 15), 2)))
			if e.padded {
				out = append(out, bv('='))
			}
		default:
			if e.padded {
				out = append(out, bv('='), bv('='))
			}
		}
	}
	return out
}

func init() {
	intrinsics["(*encoding/base64.Encoding).EncodeToString"] = func(fr *frame, args []value) value {
		e := b64of(fr, args[0])
		src, _ := args[1].([]value)
		ts := fr.ex().ts
		bs := make([]*Term, len(src))
		allConst := true
		for i, b := range src {
			bs[i] = toTermLike(ts, b, 8)
			if !bs[i].IsConst() {
				allConst = false
			}
		}
		if allConst {
			raw := make([]byte, len(bs))
			for i, b := range bs {
				raw[i] = byte(b.val)
			}
			return e.native().EncodeToString(raw)
		}
		return mkStr(e.encode(ts, bs))
	}
	intrinsics["(*encoding/base64.Encoding).DecodeString"] = func(fr *frame, args []value) value {
		e := b64of(fr, args[0])
		ex := fr.ex()
		ts := ex.ts
		fail := func() value {
			return tuple{[]value(nil), fr.i.mkError("illegal base64 data")}
		}
		if s, ok := args[1].(string); ok {
			out, err := e.native().DecodeString(s)
			if err != nil {
				return fail()
			}
			res := make([]value, len(out))
			for i, b := range out {
				res[i] = b
			}
			return tuple{res, iface{}}
		}
		in := strBytes(ts, args[1])
		bv := func(x uint64) *Term { return ts.BV(8, x) }
		var nl []*Term
		for _, c := range in {
			nl = append(nl, ts.Eq(c, bv('\n')), ts.Eq(c, bv('\r')))
		}
		if ex.branch(ts.Or(nl...)) {
			ex.unsupported("base64 input with CR/LF (skipped by the real decoder)")
		}
		n := len(in)
		if n == 0 {
			return tuple{[]value{}, iface{}}
		}
		valid := make([]*Term, n)
		val := make([]*Term, n)
		for i, c := range in {
			valid[i], val[i] = e.sextet(ts, c)
		}
		isPad := func(i int) *Term { return ts.Eq(in[i], bv('=')) }
		all := func(lo, hi int) *Term { // letters in [lo,hi)
			cs := []*Term{ts.Bool(true)}
			for i := lo; i < hi; i++ {
				cs = append(cs, valid[i])
			}
			return ts.And(cs...)
		}
		// the shapes a well-formed input of this length can have: number of letters k
		var shapes []int
		var conds []*Term
		if e.padded {
			if n%4 == 0 {
				shapes = append(shapes, n, n-1, n-2)
				conds = append(conds, all(0, n), ts.And(all(0, n-1), isPad(n-1)), ts.And(all(0, n-2), isPad(n-2), isPad(n-1)))
			}
		} else if n%4 != 1 {
			shapes = append(shapes, n)
			conds = append(conds, all(0, n))
		}
		var nots []*Term
		for _, c := range conds {
			nots = append(nots, ts.Not(c))
		}
		conds = append(conds, ts.And(append([]*Term{ts.Bool(true)}, nots...)...))
		k := ex.choose(conds)
		if k >= len(shapes) {
			return fail()
		}
		letters := shapes[k]
		shr := func(a *Term, n uint64) *Term { return ts.Bin("bvlshr", a, bv(n)) }
		shl := func(a *Term, n uint64) *Term { return ts.Bin("bvshl", a, bv(n)) }
		or := func(a, b *Term) *Term { return ts.Bin("bvor", a, b) }
		var out []value
		for i := 0; i < letters; i += 4 {
			m := letters - i
			if m >= 2 {
				out = append(out, termByte(or(shl(val[i], 2), shr(val[i+1], 4))))
			}
			if m >= 3 {
				out = append(out, termByte(or(shl(val[i+1], 4), shr(val[i+2], 2))))
			}
			if m >= 4 {
				out = append(out, termByte(or(shl(val[i+2], 6), val[i+3])))
			}
		}
		return tuple{out, iface{}}
	}
	_ = strings.TrimSpace
}
