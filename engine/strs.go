package main

// String intrinsics.  With concrete arguments the native function is called
// (through reflection); with symbolic bytes the semantics below are used.
// Results whose length depends on symbolic bytes fork on that length;
// boolean/integer results are formulas (ite-chains) without forking.

import (
	"fmt"
	"net/url"
	"path"
	"path/filepath"
	"reflect"
	"sort"
	"strconv"
	"strings"
	"unicode"
)

type externalFn func(fr *frame, args []value) value

// fallThrough is returned by an intrinsic that wants the function's SSA body
// to be interpreted instead.
type fallThroughT struct{}

var fallThrough value = fallThroughT{}

var nativeFuncs = map[string]interface{}{
	"strings.TrimSpace":     strings.TrimSpace,
	"strings.TrimLeft":      strings.TrimLeft,
	"strings.TrimRight":     strings.TrimRight,
	"strings.Trim":          strings.Trim,
	"strings.TrimPrefix":    strings.TrimPrefix,
	"strings.TrimSuffix":    strings.TrimSuffix,
	"strings.Index":         strings.Index,
	"strings.IndexByte":     strings.IndexByte,
	"strings.IndexAny":      strings.IndexAny,
	"strings.IndexRune":     strings.IndexRune,
	"strings.LastIndex":     strings.LastIndex,
	"strings.LastIndexByte": strings.LastIndexByte,
	"strings.HasPrefix":     strings.HasPrefix,
	"strings.HasSuffix":     strings.HasSuffix,
	"strings.Contains":      strings.Contains,
	"strings.ContainsAny":   strings.ContainsAny,
	"strings.ContainsRune":  strings.ContainsRune,
	"strings.Count":         strings.Count,
	"strings.ToUpper":       strings.ToUpper,
	"strings.ToLower":       strings.ToLower,
	"strings.Title":         strings.Title,
	"strings.Replace":       strings.Replace,
	"strings.ReplaceAll":    strings.ReplaceAll,
	"strings.Split":         strings.Split,
	"strings.SplitN":        strings.SplitN,
	"strings.Join":          strings.Join,
	"strings.Repeat":        strings.Repeat,
	"strings.Fields":        strings.Fields,
	"strings.EqualFold":     strings.EqualFold,
	"strings.Cut":           strings.Cut,
	"strconv.Itoa":          strconv.Itoa,
	"strconv.Atoi":          nativeAtoi,
	"strconv.Quote":         strconv.Quote,
	"strconv.FormatInt":     strconv.FormatInt,
	"strconv.FormatBool":    strconv.FormatBool,
	"path.Clean":            path.Clean,
	"path.Base":             path.Base,
	"path.Ext":              path.Ext,
	"path.Join":             path.Join,
	"path/filepath.Clean":   filepath.Clean,
	"path/filepath.Base":    filepath.Base,
	"path/filepath.Ext":     filepath.Ext,
	"path/filepath.Join":    filepath.Join,
	"path/filepath.IsAbs":   filepath.IsAbs,
	"net/url.QueryEscape":   url.QueryEscape,
	"net/url.PathEscape":    url.PathEscape,
	"unicode.IsSpace":       unicode.IsSpace,
	"unicode.IsUpper":       unicode.IsUpper,
	"unicode.IsLower":       unicode.IsLower,
	"unicode.ToUpper":       unicode.ToUpper,
	"unicode.ToLower":       unicode.ToLower,
	"unicode.IsLetter":      unicode.IsLetter,
	"unicode.IsDigit":       unicode.IsDigit,
	"sort.Strings":          sort.Strings,
}

func nativeAtoi(s string) (int, bool) {
	v, err := strconv.Atoi(s)
	return v, err == nil
}

func allConcrete(args []value) bool {
	for _, a := range args {
		switch a := a.(type) {
		case *Term, *symStr:
			return false
		case []value:
			if !allConcrete(a) {
				return false
			}
		}
	}
	return true
}

// toNative converts an interpreter value to a reflect.Value of type t.
func toNative(v value, t reflect.Type) (reflect.Value, bool) {
	switch t.Kind() {
	case reflect.String:
		if s, ok := v.(string); ok {
			return reflect.ValueOf(s).Convert(t), true
		}
	case reflect.Bool:
		if b, ok := v.(bool); ok {
			return reflect.ValueOf(b), true
		}
	case reflect.Int, reflect.Int8, reflect.Int16, reflect.Int32, reflect.Int64,
		reflect.Uint, reflect.Uint8, reflect.Uint16, reflect.Uint32, reflect.Uint64:
		rv := reflect.ValueOf(v)
		if rv.IsValid() && rv.Type().ConvertibleTo(t) && rv.Kind() != reflect.String {
			return rv.Convert(t), true
		}
	case reflect.Slice:
		sl, ok := v.([]value)
		if !ok {
			return reflect.Value{}, false
		}
		out := reflect.MakeSlice(t, len(sl), len(sl))
		for i, e := range sl {
			ev, ok := toNative(e, t.Elem())
			if !ok {
				return reflect.Value{}, false
			}
			out.Index(i).Set(ev)
		}
		return out, true
	}
	return reflect.Value{}, false
}

func fromNative(rv reflect.Value) value {
	switch rv.Kind() {
	case reflect.String:
		return rv.String()
	case reflect.Bool:
		return rv.Bool()
	case reflect.Int:
		return int(rv.Int())
	case reflect.Int8:
		return int8(rv.Int())
	case reflect.Int16:
		return int16(rv.Int())
	case reflect.Int32:
		return int32(rv.Int())
	case reflect.Int64:
		return rv.Int()
	case reflect.Uint:
		return uint(rv.Uint())
	case reflect.Uint8:
		return uint8(rv.Uint())
	case reflect.Uint16:
		return uint16(rv.Uint())
	case reflect.Uint32:
		return uint32(rv.Uint())
	case reflect.Uint64:
		return rv.Uint()
	case reflect.Slice:
		if rv.IsNil() {
			return []value(nil)
		}
		out := make([]value, rv.Len())
		for i := range out {
			out[i] = fromNative(rv.Index(i))
		}
		return out
	}
	panic(engineErr{"fromNative: " + rv.Kind().String()})
}

// nativeCall calls the registered native function with concrete arguments.
func nativeCall(name string, args []value) (value, bool) {
	f, ok := nativeFuncs[name]
	if !ok {
		return nil, false
	}
	fv := reflect.ValueOf(f)
	ft := fv.Type()
	if ft.IsVariadic() {
		// the SSA call passes the variadic slice as one argument
		if len(args) != ft.NumIn() {
			return nil, false
		}
	} else if len(args) != ft.NumIn() {
		return nil, false
	}
	in := make([]reflect.Value, len(args))
	for i, a := range args {
		rv, ok := toNative(a, ft.In(i))
		if !ok {
			return nil, false
		}
		in[i] = rv
	}
	var outs []reflect.Value
	if ft.IsVariadic() {
		outs = fv.CallSlice(in)
	} else {
		outs = fv.Call(in)
	}
	if name == "sort.Strings" {
		// in-place: copy back
		sl := args[0].([]value)
		for i := range sl {
			sl[i] = in[0].Index(i).String()
		}
		return nil, true
	}
	switch len(outs) {
	case 0:
		return nil, true
	case 1:
		return fromNative(outs[0]), true
	}
	t := make(tuple, len(outs))
	for i, o := range outs {
		t[i] = fromNative(o)
	}
	return t, true
}

// concreteOr wraps a symbolic implementation: concrete arguments go native.
func concreteOr(name string, sym externalFn) externalFn {
	return func(fr *frame, args []value) value {
		if allConcrete(args) {
			if r, ok := nativeCall(name, args); ok {
				return r
			}
		}
		if sym == nil {
			if fr.fn != nil && fr.fn.Blocks != nil {
				return fallThrough // interpret the function's own body on symbolic arguments
			}
			fr.ex().unsupported(name + " on symbolic arguments")
		}
		return sym(fr, args)
	}
}

// ---- symbolic string semantics -----------------------------------------

func byteIn(ts *TermStore, b *Term, set string) *Term {
	var alts []*Term
	for i := 0; i < len(set); i++ {
		alts = append(alts, ts.Eq(b, ts.BV(8, uint64(set[i]))))
	}
	return ts.Or(alts...)
}

func byteRange(ts *TermStore, b *Term, lo, hi byte) *Term {
	return ts.And(ts.Ule(ts.BV(8, uint64(lo)), b), ts.Ule(b, ts.BV(8, uint64(hi))))
}

type spaceTok struct {
	n    int
	cond *Term
}

// spaceToksAt lists the white-space tokens (unicode.IsSpace runes in UTF-8)
// that can start at position i of bs.
func spaceToksAt(ts *TermStore, bs []*Term, i int) []spaceTok {
	var out []spaceTok
	eq := func(k int, v byte) *Term { return ts.Eq(bs[k], ts.BV(8, uint64(v))) }
	out = append(out, spaceTok{1, byteIn(ts, bs[i], "\t\n\v\f\r ")})
	if i+1 < len(bs) {
		out = append(out, spaceTok{2, ts.And(eq(i, 0xC2), ts.Or(eq(i+1, 0x85), eq(i+1, 0xA0)))})
	}
	if i+2 < len(bs) {
		c := ts.Or(
			ts.And(eq(i, 0xE1), eq(i+1, 0x9A), eq(i+2, 0x80)),
			ts.And(eq(i, 0xE2), eq(i+1, 0x80), ts.Or(byteRange(ts, bs[i+2], 0x80, 0x8A), eq(i+2, 0xA8), eq(i+2, 0xA9), eq(i+2, 0xAF))),
			ts.And(eq(i, 0xE2), eq(i+1, 0x81), eq(i+2, 0x9F)),
			ts.And(eq(i, 0xE3), eq(i+1, 0x80), eq(i+2, 0x80)),
		)
		out = append(out, spaceTok{3, c})
	}
	return out
}

func symTrimSpace(fr *frame, args []value) value {
	ex := fr.ex()
	ts := ex.ts
	bs := strBytes(ts, args[0])
	start, stop := 0, len(bs)
	for start < stop {
		toks := spaceToksAt(ts, bs[:stop], start)
		conds := make([]*Term, 0, len(toks)+1)
		var nots []*Term
		for _, t := range toks {
			conds = append(conds, t.cond)
			nots = append(nots, ts.Not(t.cond))
		}
		conds = append(conds, ts.And(nots...))
		k := ex.choose(conds)
		if k == len(toks) {
			break
		}
		start += toks[k].n
	}
	for stop > start {
		// tokens ending at stop
		var toks []spaceTok
		for _, n := range []int{1, 2, 3} {
			if stop-n < start {
				continue
			}
			for _, t := range spaceToksAt(ts, bs[:stop], stop-n) {
				if t.n == n {
					toks = append(toks, t)
				}
			}
		}
		conds := make([]*Term, 0, len(toks)+1)
		var nots []*Term
		for _, t := range toks {
			conds = append(conds, ts.And(append([]*Term{t.cond}, nots...)...))
			nots = append(nots, ts.Not(t.cond))
		}
		conds = append(conds, ts.And(nots...))
		k := ex.choose(conds)
		if k == len(toks) {
			break
		}
		stop -= toks[k].n
	}
	return mkStr(bs[start:stop])
}

// cutsetCond returns the predicate "byte b is in the cut set" for a concrete
// or symbolic ASCII cut set (rune-based cut sets are outside the encoding).
func cutsetCond(ex *Exec, v value, what string) func(b *Term) *Term {
	ts := ex.ts
	cs := strBytes(ts, v)
	if s, ok := v.(string); ok {
		for i := 0; i < len(s); i++ {
			if s[i] >= 0x80 {
				ex.unsupported(what + " with non-ASCII cutset")
			}
		}
	} else {
		requireASCII(ex, cs, what+" cutset")
	}
	return func(b *Term) *Term {
		alts := make([]*Term, len(cs))
		for i, c := range cs {
			alts[i] = ts.Eq(b, c)
		}
		return ts.Or(alts...)
	}
}

func symTrimLeft(fr *frame, args []value) value {
	ex := fr.ex()
	bs := strBytes(ex.ts, args[0])
	in := cutsetCond(ex, args[1], "strings.TrimLeft")
	start := 0
	for start < len(bs) && ex.branch(in(bs[start])) {
		start++
	}
	return mkStr(bs[start:])
}

func symTrimRight(fr *frame, args []value) value {
	ex := fr.ex()
	bs := strBytes(ex.ts, args[0])
	in := cutsetCond(ex, args[1], "strings.TrimRight")
	stop := len(bs)
	for stop > 0 && ex.branch(in(bs[stop-1])) {
		stop--
	}
	return mkStr(bs[:stop])
}

func symTrim(fr *frame, args []value) value {
	r := symTrimLeft(fr, args)
	return symTrimRight(fr, []value{r, args[1]})
}

func intTerm(ts *TermStore, k int) *Term { return ts.BV(64, uint64(int64(k))) }

func termInt(t *Term) value {
	if t.IsConst() {
		return int(t.sval())
	}
	return t
}

// matchAt: bytes of sub occur in bs at position i.
func matchAt(ts *TermStore, bs, sub []*Term, i int) *Term {
	cs := make([]*Term, len(sub))
	for j := range sub {
		cs[j] = ts.Eq(bs[i+j], sub[j])
	}
	return ts.And(cs...)
}

func symIndex(fr *frame, args []value) value {
	ts := fr.ex().ts
	bs := strBytes(ts, args[0])
	sub := strBytes(ts, args[1])
	r := intTerm(ts, -1)
	for i := len(bs) - len(sub); i >= 0; i-- {
		r = ts.Ite(matchAt(ts, bs, sub, i), intTerm(ts, i), r)
	}
	return termInt(r)
}

func symLastIndex(fr *frame, args []value) value {
	ts := fr.ex().ts
	bs := strBytes(ts, args[0])
	sub := strBytes(ts, args[1])
	r := intTerm(ts, -1)
	for i := 0; i+len(sub) <= len(bs); i++ {
		r = ts.Ite(matchAt(ts, bs, sub, i), intTerm(ts, i), r)
	}
	return termInt(r)
}

func symIndexByte(fr *frame, args []value) value {
	ts := fr.ex().ts
	bs := strBytes(ts, args[0])
	c := toTerm(ts, args[1])
	r := intTerm(ts, -1)
	for i := len(bs) - 1; i >= 0; i-- {
		r = ts.Ite(ts.Eq(bs[i], c), intTerm(ts, i), r)
	}
	return termInt(r)
}

// symIndexAny / symContainsAny: a concrete ASCII character set against a
// symbolic string (byte-wise, which is what IndexAny does for ASCII sets).
func symIndexAny(fr *frame, args []value) value {
	set, ok := args[1].(string)
	if !ok {
		return fallThrough
	}
	for i := 0; i < len(set); i++ {
		if set[i] >= 0x80 {
			return fallThrough
		}
	}
	ts := fr.ex().ts
	bs := strBytes(ts, args[0])
	r := intTerm(ts, -1)
	for i := len(bs) - 1; i >= 0; i-- {
		r = ts.Ite(byteIn(ts, bs[i], set), intTerm(ts, i), r)
	}
	return termInt(r)
}

func symContainsAny(fr *frame, args []value) value {
	set, ok := args[1].(string)
	if !ok {
		return fallThrough
	}
	for i := 0; i < len(set); i++ {
		if set[i] >= 0x80 {
			return fallThrough
		}
	}
	ts := fr.ex().ts
	var alts []*Term
	for _, b := range strBytes(ts, args[0]) {
		alts = append(alts, byteIn(ts, b, set))
	}
	if len(alts) == 0 {
		return false
	}
	return fromBoolTerm(ts.Or(alts...))
}

func symLastIndexByte(fr *frame, args []value) value {
	ts := fr.ex().ts
	bs := strBytes(ts, args[0])
	c := toTerm(ts, args[1])
	r := intTerm(ts, -1)
	for i := 0; i < len(bs); i++ {
		r = ts.Ite(ts.Eq(bs[i], c), intTerm(ts, i), r)
	}
	return termInt(r)
}

func symHasPrefix(fr *frame, args []value) value {
	ts := fr.ex().ts
	bs, p := strBytes(ts, args[0]), strBytes(ts, args[1])
	if len(p) > len(bs) {
		return false
	}
	return fromBoolTerm(matchAt(ts, bs, p, 0))
}

func symHasSuffix(fr *frame, args []value) value {
	ts := fr.ex().ts
	bs, p := strBytes(ts, args[0]), strBytes(ts, args[1])
	if len(p) > len(bs) {
		return false
	}
	return fromBoolTerm(matchAt(ts, bs, p, len(bs)-len(p)))
}

func symContains(fr *frame, args []value) value {
	ts := fr.ex().ts
	bs, p := strBytes(ts, args[0]), strBytes(ts, args[1])
	var alts []*Term
	for i := 0; i+len(p) <= len(bs); i++ {
		alts = append(alts, matchAt(ts, bs, p, i))
	}
	return fromBoolTerm(ts.Or(alts...))
}

// requireASCII puts the path out of bound unless every byte is < 0x80.
func requireASCII(ex *Exec, bs []*Term, what string) {
	ts := ex.ts
	cs := make([]*Term, len(bs))
	for i, b := range bs {
		cs[i] = ts.Ult(b, ts.BV(8, 0x80))
	}
	if !ex.branch(ts.And(cs...)) {
		ex.outOfBound(what + " on non-ASCII symbolic bytes")
	}
}

func symToUpper(fr *frame, args []value) value {
	ex := fr.ex()
	ts := ex.ts
	bs := strBytes(ts, args[0])
	requireASCII(ex, bs, "strings.ToUpper")
	out := make([]*Term, len(bs))
	for i, b := range bs {
		out[i] = ts.Ite(byteRange(ts, b, 'a', 'z'), ts.Sub(b, ts.BV(8, 32)), b)
	}
	return mkStr(out)
}

func symToLower(fr *frame, args []value) value {
	ex := fr.ex()
	ts := ex.ts
	bs := strBytes(ts, args[0])
	requireASCII(ex, bs, "strings.ToLower")
	out := make([]*Term, len(bs))
	for i, b := range bs {
		out[i] = ts.Ite(byteRange(ts, b, 'A', 'Z'), ts.Add(b, ts.BV(8, 32)), b)
	}
	return mkStr(out)
}

func symEqualFold(fr *frame, args []value) value {
	ex := fr.ex()
	ts := ex.ts
	a, b := strBytes(ts, args[0]), strBytes(ts, args[1])
	requireASCII(ex, a, "strings.EqualFold")
	requireASCII(ex, b, "strings.EqualFold")
	if len(a) != len(b) {
		return false
	}
	low := func(x *Term) *Term { return ts.Ite(byteRange(ts, x, 'A', 'Z'), ts.Add(x, ts.BV(8, 32)), x) }
	cs := make([]*Term, len(a))
	for i := range a {
		cs[i] = ts.Eq(low(a[i]), low(b[i]))
	}
	return fromBoolTerm(ts.And(cs...))
}

// replacePairs: leftmost, non-overlapping, argument-order priority, single pass.
func replacePairs(ex *Exec, bs []*Term, olds, news [][]*Term, limit int) []*Term {
	ts := ex.ts
	var out []*Term
	i := 0
	done := 0
	for i < len(bs) {
		replaced := false
		if limit < 0 || done < limit {
			for k := range olds {
				o := olds[k]
				if len(o) == 0 {
					ex.unsupported("replace with empty old string on symbolic input")
				}
				if i+len(o) > len(bs) {
					continue
				}
				if ex.branch(matchAt(ts, bs, o, i)) {
					out = append(out, news[k]...)
					i += len(o)
					replaced = true
					done++
					break
				}
			}
		}
		if !replaced {
			out = append(out, bs[i])
			i++
		}
	}
	return out
}

func symReplace(fr *frame, args []value) value {
	ex := fr.ex()
	ts := ex.ts
	n := -1
	if len(args) > 3 {
		n = int(fr.concInt(args[3], nil))
	}
	out := replacePairs(ex, strBytes(ts, args[0]), [][]*Term{strBytes(ts, args[1])}, [][]*Term{strBytes(ts, args[2])}, n)
	return mkStr(out)
}

func symSplitN(fr *frame, args []value) value {
	ex := fr.ex()
	ts := ex.ts
	bs := strBytes(ts, args[0])
	sep := strBytes(ts, args[1])
	n := -1
	if len(args) > 2 {
		n = int(fr.concInt(args[2], nil))
	}
	if len(sep) == 0 {
		ex.unsupported("strings.Split with empty separator on symbolic input")
	}
	if n == 0 {
		return []value(nil)
	}
	var parts []value
	start := 0
	i := 0
	for i+len(sep) <= len(bs) {
		if n > 0 && len(parts) == n-1 {
			break
		}
		if ex.branch(matchAt(ts, bs, sep, i)) {
			parts = append(parts, mkStr(bs[start:i]))
			i += len(sep)
			start = i
		} else {
			i++
		}
	}
	parts = append(parts, mkStr(bs[start:]))
	return parts
}

func symJoin(fr *frame, args []value) value {
	ts := fr.ex().ts
	elems := args[0].([]value)
	sep := strBytes(ts, args[1])
	var out []*Term
	for i, e := range elems {
		if i > 0 {
			out = append(out, sep...)
		}
		out = append(out, strBytes(ts, e)...)
	}
	return mkStr(out)
}

func symCount(fr *frame, args []value) value {
	ex := fr.ex()
	ts := ex.ts
	bs, sub := strBytes(ts, args[0]), strBytes(ts, args[1])
	if len(sub) != 1 {
		ex.unsupported("strings.Count with multi-byte separator on symbolic input")
	}
	r := intTerm(ts, 0)
	for _, b := range bs {
		r = ts.Add(r, ts.Ite(ts.Eq(b, sub[0]), intTerm(ts, 1), intTerm(ts, 0)))
	}
	return termInt(r)
}

func symTrimPrefix(fr *frame, args []value) value {
	ex := fr.ex()
	ts := ex.ts
	bs, p := strBytes(ts, args[0]), strBytes(ts, args[1])
	if len(p) <= len(bs) && ex.branch(matchAt(ts, bs, p, 0)) {
		return mkStr(bs[len(p):])
	}
	return args[0]
}

func symTrimSuffix(fr *frame, args []value) value {
	ex := fr.ex()
	ts := ex.ts
	bs, p := strBytes(ts, args[0]), strBytes(ts, args[1])
	if len(p) <= len(bs) && ex.branch(matchAt(ts, bs, p, len(bs)-len(p))) {
		return mkStr(bs[:len(bs)-len(p)])
	}
	return args[0]
}

func init() {
	reg := func(name string, sym externalFn) { intrinsics[name] = concreteOr(name, sym) }
	// sort.Strings sorts in place: under the C03 event log its element reads
	// and the writes that change an element are shared-memory accesses
	defer func() {
		inner := intrinsics["sort.Strings"]
		intrinsics["sort.Strings"] = func(fr *frame, args []value) value {
			sl, _ := args[0].([]value)
			if fr.i.conc == nil || !fr.i.conc.on || sl == nil {
				return inner(fr, args)
			}
			before := append([]value(nil), sl...)
			for k := range sl {
				fr.i.logAccess(&sl[k], false, fr.caller)
			}
			r := inner(fr, args)
			for k := range sl {
				if before[k] != sl[k] {
					fr.i.logAccess(&sl[k], true, fr.caller)
				}
			}
			return r
		}
	}()
	reg("strings.TrimSpace", symTrimSpace)
	reg("strings.TrimLeft", symTrimLeft)
	reg("strings.TrimRight", symTrimRight)
	reg("strings.Trim", symTrim)
	reg("strings.TrimPrefix", symTrimPrefix)
	reg("strings.TrimSuffix", symTrimSuffix)
	reg("strings.Index", symIndex)
	reg("strings.LastIndex", symLastIndex)
	reg("strings.IndexByte", symIndexByte)
	reg("strings.LastIndexByte", symLastIndexByte)
	reg("strings.HasPrefix", symHasPrefix)
	reg("strings.HasSuffix", symHasSuffix)
	reg("strings.Contains", symContains)
	reg("strings.ToUpper", symToUpper)
	reg("strings.ToLower", symToLower)
	reg("strings.EqualFold", symEqualFold)
	reg("strings.Replace", symReplace)
	reg("strings.ReplaceAll", func(fr *frame, args []value) value {
		return symReplace(fr, append(append([]value{}, args...), -1))
	})
	reg("strings.Split", func(fr *frame, args []value) value { return symSplitN(fr, append(append([]value{}, args...), -1)) })
	reg("strings.SplitN", symSplitN)
	reg("strings.Join", symJoin)
	reg("strings.Count", symCount)
	reg("strings.IndexAny", symIndexAny)
	reg("strings.ContainsAny", symContainsAny)
	for _, n := range []string{"strings.IndexRune", "strings.ContainsRune",
		"strings.Title", "strings.Repeat", "strings.Fields", "strings.Cut", "strconv.Itoa", "strconv.Quote",
		"strconv.FormatInt", "strconv.FormatBool", "net/url.QueryEscape", "net/url.PathEscape", "sort.Strings"} {
		reg(n, nil)
	}
	// strconv.Atoi returns (int, error): adapt
	intrinsics["strconv.Atoi"] = func(fr *frame, args []value) value {
		s, ok := args[0].(string)
		if !ok {
			fr.ex().unsupported("strconv.Atoi on symbolic string")
		}
		v, err := strconv.Atoi(s)
		if err != nil {
			return tuple{0, fr.i.mkError(err.Error())}
		}
		return tuple{v, iface{}}
	}
	_ = fmt.Sprint
}

func init() {
	intrinsics["strings.NewReplacer"] = func(fr *frame, args []value) value {
		pairs := args[0].([]value)
		if len(pairs)%2 == 1 {
			panic(targetPanic{iface{types_String, "strings.NewReplacer: odd argument count"}})
		}
		return &hostObj{kind: "replacer", aux: append([]value{}, pairs...)}
	}
	intrinsics["(*strings.Replacer).Replace"] = func(fr *frame, args []value) value {
		h, ok := args[0].(*hostObj)
		if !ok || h == nil {
			panic(rtErr("runtime error: invalid memory address or nil pointer dereference"))
		}
		pairs := h.aux.([]value)
		if allConcrete(pairs) && allConcrete(args[1:2]) {
			ss := make([]string, len(pairs))
			for i, p := range pairs {
				ss[i] = p.(string)
			}
			return strings.NewReplacer(ss...).Replace(args[1].(string))
		}
		ex := fr.ex()
		var olds, news [][]*Term
		for i := 0; i+1 < len(pairs); i += 2 {
			olds = append(olds, strBytes(ex.ts, pairs[i]))
			news = append(news, strBytes(ex.ts, pairs[i+1]))
		}
		return mkStr(replacePairs(ex, strBytes(ex.ts, args[1]), olds, news, -1))
	}
}
