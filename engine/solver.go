package main

// Driver for one live SMT solver process (z3 -in / z3-new -in / cvc5
// --incremental).  One process per worker; a (reset) per execution path,
// named definitions for shared sub-terms, feasibility checks through
// check-sat-assuming so that no definition is lost in a pop.

import (
	"bufio"
	"fmt"
	"io"
	"os"
	"os/exec"
	"strconv"
	"strings"
	"time"
)

type Solver struct {
	kind      string
	cmd       *exec.Cmd
	in        io.WriteCloser
	out       *bufio.Reader
	defined   map[int]bool
	timeoutMs int
	Queries   int
	Unknowns  int
	Errors    int
	Time      time.Duration
	MaxTime   time.Duration
	logf      *os.File
	dead      bool
	// second solver fed with the same commands; every mirrorEvery-th obligation
	// query is answered by both and the answers are compared
	mirror      *Solver
	mirrorEvery int
	mirrorCount int
	Rechecked   int
	Disagreed   int
}

func NewSolver(kind string, timeoutMs int) (*Solver, error) {
	var cmd *exec.Cmd
	switch kind {
	case "z3":
		cmd = exec.Command("z3", "-in")
	case "z3-new":
		cmd = exec.Command("z3-new", "-in")
	case "cvc5":
		cmd = exec.Command("cvc5", "--incremental", "--lang=smt2", "--produce-models",
			fmt.Sprintf("--tlimit-per=%d", timeoutMs))
	default:
		return nil, fmt.Errorf("unknown solver %q", kind)
	}
	in, err := cmd.StdinPipe()
	if err != nil {
		return nil, err
	}
	out, err := cmd.StdoutPipe()
	if err != nil {
		return nil, err
	}
	cmd.Stderr = nil
	if err := cmd.Start(); err != nil {
		return nil, err
	}
	s := &Solver{kind: kind, cmd: cmd, in: in, out: bufio.NewReaderSize(out, 1<<16), timeoutMs: timeoutMs}
	if p := os.Getenv("RUXSYM_SMTLOG"); p != "" {
		s.logf, _ = os.OpenFile(p, os.O_CREATE|os.O_WRONLY|os.O_APPEND, 0o644)
	}
	s.Reset()
	return s, nil
}

func (s *Solver) send(str string) {
	if s.mirror != nil && !strings.HasPrefix(str, "(check-sat") && !strings.HasPrefix(str, "(get-value") &&
		!strings.HasPrefix(str, "(reset") && !strings.HasPrefix(str, "(set-") {
		s.mirror.send(str)
	}
	if s.dead {
		return
	}
	if s.logf != nil {
		s.logf.WriteString(str)
	}
	if _, err := io.WriteString(s.in, str); err != nil {
		s.dead = true
	}
}

func (s *Solver) Close() {
	if s.mirror != nil {
		s.mirror.Close()
	}
	if s.cmd != nil {
		s.send("(exit)\n")
		s.in.Close()
		done := make(chan struct{})
		go func() { s.cmd.Wait(); close(done) }()
		select {
		case <-done:
		case <-time.After(2 * time.Second):
			s.cmd.Process.Kill()
		}
	}
}

func (s *Solver) Reset() {
	if s.mirror != nil {
		s.mirror.Reset()
	}
	s.defined = map[int]bool{}
	s.send("(reset)\n")
	if s.kind == "cvc5" {
		s.send("(set-logic ALL)\n")
	} else {
		s.send(fmt.Sprintf("(set-option :timeout %d)\n", s.timeoutMs))
	}
	s.send("(set-option :produce-models true)\n")
}

func (s *Solver) define(t *Term) {
	if s.defined[t.id] {
		return
	}
	s.defined[t.id] = true
	switch t.op {
	case "const":
		return
	case "var":
		s.send(fmt.Sprintf("(declare-const %s %s)\n", t.name, sortOf(t)))
		return
	}
	for _, a := range t.args {
		s.define(a)
	}
	s.send(fmt.Sprintf("(define-fun %s () %s %s)\n", t.sym(), sortOf(t), t.body()))
}

func (s *Solver) Assert(t *Term) {
	s.define(t)
	s.send(fmt.Sprintf("(assert %s)\n", t.sym()))
}

// readAnswer reads lines until sat/unsat/unknown; any (error line makes the
// answer inconclusive.
func (s *Solver) readAnswer() string {
	sawErr := false
	for {
		line, err := s.out.ReadString('\n')
		if err != nil {
			s.dead = true
			return "unknown"
		}
		line = strings.TrimSpace(line)
		switch {
		case line == "sat" || line == "unsat" || line == "unknown":
			if sawErr {
				s.Errors++
				return "unknown"
			}
			return line
		case strings.HasPrefix(line, "(error"):
			sawErr = true
			if os.Getenv("RUXSYM_DEBUG") != "" {
				fmt.Fprintln(os.Stderr, "solver:", line)
			}
		case line == "timeout":
			return "unknown"
		}
	}
}

// Check asks whether the asserted formulas plus the given literals are
// satisfiable.  lits are (term, polarity) pairs.
func (s *Solver) Check(lits ...Lit) string {
	if s.dead {
		return "unknown"
	}
	var sb strings.Builder
	for _, l := range lits {
		s.define(l.t)
	}
	if len(lits) == 0 {
		sb.WriteString("(check-sat)\n")
	} else {
		sb.WriteString("(check-sat-assuming (")
		for i, l := range lits {
			if i > 0 {
				sb.WriteString(" ")
			}
			if l.neg {
				sb.WriteString("(not " + l.t.sym() + ")")
			} else {
				sb.WriteString(l.t.sym())
			}
		}
		sb.WriteString("))\n")
	}
	t0 := time.Now()
	s.send(sb.String())
	ans := s.readAnswer()
	d := time.Since(t0)
	s.Queries++
	s.Time += d
	if d > s.MaxTime {
		s.MaxTime = d
	}
	if ans == "unknown" {
		s.Unknowns++
	}
	return ans
}

type Lit struct {
	t   *Term
	neg bool
}

// Values returns the model values of the given variables (after a sat answer).
func (s *Solver) Values(vars []*Term) map[string]uint64 {
	res := map[string]uint64{}
	if len(vars) == 0 || s.dead {
		return res
	}
	var sb strings.Builder
	sb.WriteString("(get-value (")
	for i, v := range vars {
		s.define(v)
		if i > 0 {
			sb.WriteString(" ")
		}
		sb.WriteString(v.sym())
	}
	sb.WriteString("))\n")
	s.send(sb.String())
	// read a balanced s-expression
	depth := 0
	var buf strings.Builder
	started := false
	for {
		line, err := s.out.ReadString('\n')
		if err != nil {
			s.dead = true
			return res
		}
		for _, ch := range line {
			if ch == '(' {
				depth++
				started = true
			} else if ch == ')' {
				depth--
			}
		}
		buf.WriteString(line)
		if started && depth <= 0 {
			break
		}
	}
	txt := buf.String()
	if strings.HasPrefix(strings.TrimSpace(txt), "(error") {
		s.Errors++
		return res
	}
	// entries look like (name #x0a) (name #b101) (name true) (name (_ bv10 8))
	toks := tokenize(txt)
	for i := 0; i+1 < len(toks); i++ {
		if toks[i] != "(" {
			continue
		}
		name := toks[i+1]
		if name == "(" || i+2 >= len(toks) {
			continue
		}
		v := toks[i+2]
		switch {
		case v == "true":
			res[name] = 1
		case v == "false":
			res[name] = 0
		case strings.HasPrefix(v, "#x"):
			u, _ := strconv.ParseUint(v[2:], 16, 64)
			res[name] = u
		case strings.HasPrefix(v, "#b"):
			u, _ := strconv.ParseUint(v[2:], 2, 64)
			res[name] = u
		case v == "(" && i+4 < len(toks) && toks[i+3] == "_" && strings.HasPrefix(toks[i+4], "bv"):
			u, _ := strconv.ParseUint(toks[i+4][2:], 10, 64)
			res[name] = u
		}
	}
	return res
}

func tokenize(s string) []string {
	var toks []string
	cur := ""
	flush := func() {
		if cur != "" {
			toks = append(toks, cur)
			cur = ""
		}
	}
	for _, ch := range s {
		switch ch {
		case '(', ')':
			flush()
			toks = append(toks, string(ch))
		case ' ', '\n', '\t', '\r':
			flush()
		default:
			cur += string(ch)
		}
	}
	flush()
	return toks
}


// CheckObligation is Check for a proof obligation: every mirrorEvery-th call is
// also answered by the second solver; a disagreement makes the answer unknown.
func (s *Solver) CheckObligation(lits ...Lit) string {
	ans := s.Check(lits...)
	if s.mirror == nil || s.mirror.dead {
		return ans
	}
	s.mirrorCount++
	if s.mirrorEvery > 1 && s.mirrorCount%s.mirrorEvery != 0 {
		return ans
	}
	var sb strings.Builder
	if len(lits) == 0 {
		sb.WriteString("(check-sat)\n")
	} else {
		sb.WriteString("(check-sat-assuming (")
		for i, l := range lits {
			if i > 0 {
				sb.WriteString(" ")
			}
			if l.neg {
				sb.WriteString("(not " + l.t.sym() + ")")
			} else {
				sb.WriteString(l.t.sym())
			}
		}
		sb.WriteString("))\n")
	}
	s.mirror.send(sb.String())
	other := s.mirror.readAnswer()
	s.Rechecked++
	if other != "unknown" && ans != "unknown" && other != ans {
		s.Disagreed++
		fmt.Fprintf(os.Stderr, "SOLVER-DISAGREEMENT %s=%s %s=%s\n", s.kind, ans, s.mirror.kind, other)
		return "unknown"
	}
	return ans
}
