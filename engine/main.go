package main

// ruxsym: bounded symbolic execution of gookit/rux from go/ssa with an SMT
// back end.  See /verif/DESIGN.md.

import (
	"encoding/json"
	"flag"
	"fmt"
	"go/types"
	"os"
	"path/filepath"
	"regexp"
	"runtime"
	"sort"
	"strings"
	"sync"
	"time"

	"golang.org/x/tools/go/packages"
	"golang.org/x/tools/go/ssa"
	"golang.org/x/tools/go/ssa/ssautil"
)

var repoDir = repoDirFromEnv()

// repoDirFromEnv: the registered checks always analyse /repo; RUXSYM_REPO is a
// development aid for running a check against a scratch worktree.
func repoDirFromEnv() string {
	if d := os.Getenv("RUXSYM_REPO"); d != "" {
		return d
	}
	return "/repo"
}
// verifDir: the checkout this binary belongs to (<verifDir>/bin/ruxsym), so
// that a copy of /verif elsewhere reads its own harnesses and writes its own
// evidence; RUXSYM_VERIF overrides.
var verifDir = func() string {
	if d := os.Getenv("RUXSYM_VERIF"); d != "" {
		return d
	}
	if exe, err := os.Executable(); err == nil {
		if real, err := filepath.EvalSymlinks(exe); err == nil {
			exe = real
		}
		d := filepath.Dir(filepath.Dir(exe))
		if _, err := os.Stat(filepath.Join(d, "harness", "api.go.tmpl")); err == nil {
			return d
		}
	}
	return "/verif"
}()
const ruxPath = "github.com/gookit/rux"

var pkgDirs = map[string]string{ // harness dir -> package path suffix
	"rux":      "",
	"handlers": "/pkg/handlers",
	"binding":  "/pkg/binding",
	"render":   "/pkg/render",
}

type World struct {
	prog    *ssa.Program
	pkgs    map[string]*ssa.Package // by harness dir name
	sizes   types.Sizes
	overlay map[string][]byte
	loadDur time.Duration
}

// excludedHarness: harness source files (by virtual path) that do not compile
// against the current tree (an internal identifier they use was changed);
// they are left out so that the other harnesses still run.
var excludedHarness = map[string]bool{}

var harnessRe = regexp.MustCompile(`(?m)^func (verifHarness_[A-Za-z0-9_]+)\(\)`)

// buildOverlay maps harness sources into the repository's packages.
func buildOverlay(withTests bool) (map[string][]byte, map[string][]string, error) {
	ov := map[string][]byte{}
	names := map[string][]string{}
	api, err := os.ReadFile(filepath.Join(verifDir, "harness", "api.go.tmpl"))
	if err != nil {
		return nil, nil, err
	}
	rtest, err := os.ReadFile(filepath.Join(verifDir, "harness", "replay_test.go.tmpl"))
	if err != nil {
		return nil, nil, err
	}
	for dir, suffix := range pkgDirs {
		files, _ := filepath.Glob(filepath.Join(verifDir, "harness", dir, "*.go"))
		if len(files) == 0 {
			continue
		}
		target := filepath.Join(repoDir, strings.TrimPrefix(suffix, "/"))
		pkgName := dir
		var hs []string
		for _, f := range files {
			src, err := os.ReadFile(f)
			if err != nil {
				return nil, nil, err
			}
			if excludedHarness[filepath.Join(target, "zz_verif_"+filepath.Base(f))] {
				continue
			}
			ov[filepath.Join(target, "zz_verif_"+filepath.Base(f))] = src
			for _, m := range harnessRe.FindAllSubmatch(src, -1) {
				hs = append(hs, string(m[1]))
			}
		}
		sort.Strings(hs)
		names[dir] = hs
		ov[filepath.Join(target, "zz_verif_api.go")] = []byte(strings.Replace(string(api), "PKGNAME", pkgName, 1))
		var sb strings.Builder
		fmt.Fprintf(&sb, "package %s\n\nvar verifHarnesses = map[string]func(){\n", pkgName)
		for _, h := range hs {
			fmt.Fprintf(&sb, "\t%q: %s,\n", h, h)
		}
		sb.WriteString("}\n")
		ov[filepath.Join(target, "zz_verif_registry.go")] = []byte(sb.String())
		if withTests {
			ov[filepath.Join(target, "zz_verif_replay_test.go")] = []byte(strings.Replace(string(rtest), "PKGNAME", pkgName, 1))
		}
	}
	return ov, names, nil
}

func loadWorld() (*World, error) {
	t0 := time.Now()
	var pkgs []*packages.Package
	var ov map[string][]byte
	for attempt := 0; ; attempt++ {
		var err error
		ov, _, err = buildOverlay(false)
		if err != nil {
			return nil, err
		}
		cfg := &packages.Config{
			Mode: packages.NeedName | packages.NeedFiles | packages.NeedCompiledGoFiles | packages.NeedImports |
				packages.NeedDeps | packages.NeedTypes | packages.NeedSyntax | packages.NeedTypesInfo | packages.NeedTypesSizes,
			Dir:     repoDir,
			Overlay: ov,
			Env:     append(os.Environ(), "GOFLAGS=-mod=mod", "GOPROXY=off", "GOSUMDB=off", "GOTOOLCHAIN=local"),
		}
		var patterns []string
		for _, suffix := range pkgDirs {
			patterns = append(patterns, ruxPath+suffix)
		}
		sort.Strings(patterns)
		pkgs, err = packages.Load(cfg, patterns...)
		if err != nil {
			return nil, err
		}
		nerr := 0
		var msgs []string
		badHarness := map[string]bool{}
		packages.Visit(pkgs, nil, func(p *packages.Package) {
			for _, e := range p.Errors {
				if strings.HasPrefix(p.PkgPath, ruxPath) {
					nerr++
					msgs = append(msgs, e.Error())
					// position "file:line:col"
					if k := strings.Index(e.Pos, ":"); k > 0 {
						f := e.Pos[:k]
						if strings.HasPrefix(filepath.Base(f), "zz_verif_") && filepath.Base(f) != "zz_verif_api.go" && filepath.Base(f) != "zz_verif_registry.go" {
							badHarness[f] = true
						}
					}
				}
			}
		})
		if nerr == 0 {
			break
		}
		if len(badHarness) == 0 || attempt >= 8 {
			for _, m := range msgs {
				fmt.Fprintln(os.Stderr, "load error:", m)
			}
			return nil, fmt.Errorf("%d load errors in %s (does the tree compile?)", nerr, ruxPath)
		}
		for f := range badHarness {
			excludedHarness[f] = true
			fmt.Printf("NOTE harness file %s does not compile against this tree (an identifier it uses changed) and is left out: %s\n", filepath.Base(f), firstMsgFor(msgs, f))
		}
	}
	prog, spkgs := ssautil.AllPackages(pkgs, ssa.InstantiateGenerics)
	prog.Build()
	w := &World{prog: prog, pkgs: map[string]*ssa.Package{}, overlay: ov}
	for i, p := range pkgs {
		for dir, suffix := range pkgDirs {
			if p.PkgPath == ruxPath+suffix {
				w.pkgs[dir] = spkgs[i]
				if w.sizes == nil {
					w.sizes = p.TypesSizes
				}
			}
		}
	}
	w.loadDur = time.Since(t0)
	return w, nil
}

// Job: one harness under one enumerated configuration.
type Job struct {
	Pkg     string
	Harness string
	Cfg     int
	Params  map[string]int
	Stage   int // 0: must finish; >0: deeper bound, dropped (and reported) once the time budget is used up
}

type Witness struct {
	idx    int
	Job    Job
	Vec    []ReplayVal
	Covers []string
}

type JobResult struct {
	Witnesses []Witness
	Job      Job
	Stats    *JobStats
	Obls     []*Obligation
	Complete bool
	TimedOut bool // a Stage>0 job cut short by the time budget
	Err      string
	Dur      time.Duration
	Samples  []string
}

type RunOpts struct {
	Mirror      string // second solver ("" = none)
	MirrorEvery int
	WitnessPerJob int
	MaxPaths  int
	MaxInstr  int64
	TimeoutMs int
	Solver    string
	Workers   int
	Verbose   bool
	Deadline  time.Time // zero = none; applies to jobs with Stage > 0
	DeadlineAll bool    // the deadline applies to every job (quick tier's safety net)
}

func isRuxInit(fn *ssa.Function) bool {
	return fn.Name() == "init" && fn.Synthetic != "" && fn.Pkg != nil
}

// runPath executes the harness once along the given decision prefix.
func (w *World) runPath(job Job, sol *Solver, prefix []int, pending *[][]int, stats *JobStats, opts RunOpts, vector []ReplayVal) (ex *Exec) {
	pkg := w.pkgs[job.Pkg]
	fn := pkg.Func(job.Harness)
	ex = &Exec{ts: NewTermStore(), sol: sol, prefix: prefix, pending: pending, stats: stats,
		harness: job.Harness, cfg: job.Cfg, params: job.Params, maxInstr: opts.MaxInstr, curModel: map[string]uint64{},
		wantWitness: opts.WitnessPerJob > 0}
	if vector != nil {
		ex.concrete = true
		ex.vector = vector
	}
	sol.Reset()
	i := &interpreter{prog: w.prog, globals: map[*ssa.Global]*value{}, sizes: w.sizes, ex: ex,
		pools: map[*value]*poolState{}, syncMaps: map[*value]*omap{}, decoderReaders: map[*value]value{}, ghost: map[string]value{}}
	if rp := w.prog.ImportedPackage("runtime"); rp != nil {
		i.runtimeErrorString = rp.Type("errorString").Type()
	}
	stats.Paths++
	defer func() {
		stats.Instrs += ex.ninstr
		r := recover()
		if r == nil {
			return
		}
		switch p := r.(type) {
		case pathEnd:
			_ = p
		case engineErr:
			stats.Unsupported[p.msg]++
		case targetPanic, rtErr:
			ex.curPos = "harness"
			ex.panicObl(describePanic(p))
		case runtime.Error:
			if _, ok := p.(*runtime.TypeAssertionError); ok {
				stats.Unsupported["interpreter: "+p.Error()]++
			} else {
				ex.curPos = "harness"
				ex.panicObl(describePanic(p))
			}
		case string:
			stats.Unsupported["interpreter: "+p]++
		default:
			panic(r)
		}
	}()
	if fn == nil {
		panic(engineErr{"no such harness: " + job.Harness})
	}
	// package initialisers of the repository's own packages (concrete)
	for _, dir := range []string{"rux", "render", "binding", "handlers"} {
		if p := w.pkgs[dir]; p != nil {
			if f := p.Func("init"); f != nil {
				call(i, nil, 0, f, nil)
			}
		}
	}
	call(i, nil, 0, fn, nil)
	// path completed normally: optionally extract a concrete witness of its path condition
	if ex.wantWitness && !ex.concrete {
		clean := true
		for _, o := range ex.obls {
			if o.Status != "discharged" {
				clean = false
			}
		}
		if clean && sol.Check() == "sat" {
			vec := ex.model()
			if vec == nil {
				vec = []ReplayVal{}
			}
			for _, v := range vec {
				if strings.HasPrefix(v.Label, "err_") && v.Int != 0 {
					clean = false
				}
			}
			if clean {
				ex.witness = vec
			}
		}
	}
	return ex
}

type jobState struct {
	wstride int
	wcount  int
	mu  sync.Mutex
	res *JobResult
	t0  time.Time
	out int // outstanding paths
}

type workItem struct {
	js     *jobState
	prefix []int
}

type workQueue struct {
	mu          sync.Mutex
	cond        *sync.Cond
	items       []workItem
	outstanding int
}

func (q *workQueue) push(it workItem) {
	q.mu.Lock()
	q.items = append(q.items, it)
	q.outstanding++
	q.mu.Unlock()
	q.cond.Signal()
}

// pop blocks until an item is available or all work is done.
func (q *workQueue) pop() (workItem, bool) {
	q.mu.Lock()
	defer q.mu.Unlock()
	for len(q.items) == 0 && q.outstanding > 0 {
		q.cond.Wait()
	}
	if len(q.items) == 0 {
		return workItem{}, false
	}
	it := q.items[len(q.items)-1]
	q.items = q.items[:len(q.items)-1]
	return it, true
}

func (q *workQueue) done() {
	q.mu.Lock()
	q.outstanding--
	fin := q.outstanding == 0
	q.mu.Unlock()
	if fin {
		q.cond.Broadcast()
	}
}

// runJobs explores all paths of all jobs.  Every path is an independent
// re-execution along a decision prefix, so the work queue is shared by all
// workers (each with its own solver process).
func runJobs(w *World, jobs []Job, opts RunOpts) []*JobResult {
	results := make([]*JobResult, len(jobs))
	q := &workQueue{}
	q.cond = sync.NewCond(&q.mu)
	states := make([]*jobState, len(jobs))
	for i := len(jobs) - 1; i >= 0; i-- {
		results[i] = &JobResult{Job: jobs[i], Stats: newJobStats(), Complete: true}
		states[i] = &jobState{res: results[i], t0: time.Now()}
		q.push(workItem{js: states[i]})
	}
	var wg sync.WaitGroup
	nw := opts.Workers
	var startErr error
	var emu sync.Mutex
	for k := 0; k < nw; k++ {
		wg.Add(1)
		go func() {
			defer wg.Done()
			sol, err := NewSolver(opts.Solver, opts.TimeoutMs)
			if err == nil && opts.Mirror != "" {
				if m, merr := NewSolver(opts.Mirror, opts.TimeoutMs); merr == nil {
					sol.mirror = m
					sol.mirrorEvery = opts.MirrorEvery
					sol.Reset()
				}
			}
			if err != nil {
				emu.Lock()
				startErr = err
				emu.Unlock()
				// drain so that others can finish
				for {
					_, ok := q.pop()
					if !ok {
						return
					}
					q.done()
				}
			}
			defer sol.Close()
			for {
				it, ok := q.pop()
				if !ok {
					break
				}
				js := it.js
				js.mu.Lock()
				over := js.res.Stats.Paths >= opts.MaxPaths
				if over && js.res.Complete {
					js.res.Complete = false
					js.res.Stats.OutOfBound["path budget exhausted"]++
				}
				if !over && (js.res.Job.Stage > 0 || opts.DeadlineAll) && !opts.Deadline.IsZero() && time.Now().After(opts.Deadline) {
					over = true
					if js.res.Complete {
						js.res.Complete = false
						js.res.TimedOut = true
					}
				}
				js.mu.Unlock()
				if over {
					q.done()
					continue
				}
				var pending [][]int
				st := newJobStats()
				ex := w.runPath(js.res.Job, sol, it.prefix, &pending, st, opts, nil)
				for _, p := range pending {
					q.push(workItem{js: js, prefix: p})
				}
				js.mu.Lock()
				js.res.Stats.merge(st)
				for _, o := range ex.obls {
					o.Pkg, o.Params = js.res.Job.Pkg, js.res.Job.Params
				}
				js.res.Obls = append(js.res.Obls, ex.obls...)
				if ex.witness != nil && opts.WitnessPerJob > 0 {
					// keep witnesses evenly spread over the job's paths
					if js.wstride == 0 {
						js.wstride = 1
					}
					js.wcount++
					if js.wcount%js.wstride == 0 {
						js.res.Witnesses = append(js.res.Witnesses, Witness{idx: js.wcount, Job: js.res.Job, Vec: ex.witness, Covers: ex.coverSeq})
						if len(js.res.Witnesses) > opts.WitnessPerJob {
							js.wstride *= 2
							kept := js.res.Witnesses[:0]
							for _, wt := range js.res.Witnesses {
								if wt.idx%js.wstride == 0 {
									kept = append(kept, wt)
								}
							}
							js.res.Witnesses = kept
						}
					}
				}
				if len(js.res.Samples) < 2 && len(ex.pcs) > 0 {
					js.res.Samples = append(js.res.Samples, pcString(ex.pcs))
				}
				js.res.Dur = time.Since(js.t0)
				js.mu.Unlock()
				q.done()
			}
			solverMu.Lock()
			totQueries += sol.Queries
			totSolverTime += sol.Time
			if sol.MaxTime > maxSolverTime {
				maxSolverTime = sol.MaxTime
			}
			totSolverErrors += sol.Errors
			totRechecked += sol.Rechecked
			totDisagreed += sol.Disagreed
			solverMu.Unlock()
		}()
	}
	wg.Wait()
	if startErr != nil {
		fmt.Fprintln(os.Stderr, "solver:", startErr)
		return make([]*JobResult, len(jobs))
	}
	if opts.Verbose {
		for _, r := range results {
			fmt.Fprintf(os.Stderr, "job %s cfg=%d params=%v: paths=%d obls=%d viol=%d unk=%d unsupported=%v oob=%v %.2fs\n",
				r.Job.Harness, r.Job.Cfg, r.Job.Params, r.Stats.Paths, r.Stats.Obligations, r.Stats.Violated, r.Stats.Unknown,
				r.Stats.Unsupported, r.Stats.OutOfBound, r.Dur.Seconds())
		}
	}
	return results
}

func pcString(pcs []*Term) string {
	var sb strings.Builder
	for k, c := range pcs {
		if k > 0 {
			sb.WriteString(" ∧ ")
		}
		if sb.Len() > 300 {
			sb.WriteString("…")
			break
		}
		sb.WriteString(c.String())
	}
	return sb.String()
}

var (
	solverMu        sync.Mutex
	totQueries      int
	totSolverTime   time.Duration
	maxSolverTime   time.Duration
	totSolverErrors int
	totRechecked    int
	totDisagreed    int
)

func parseParams(s string) map[string]int {
	m := map[string]int{}
	for _, kv := range strings.Split(s, ",") {
		if kv == "" {
			continue
		}
		p := strings.SplitN(kv, "=", 2)
		v := 0
		fmt.Sscanf(p[1], "%d", &v)
		m[p[0]] = v
	}
	return m
}

func main() {
	if len(os.Args) < 2 {
		fmt.Fprintln(os.Stderr, "usage: ruxsym check <property> <quick|thorough> | run ... | selftest")
		os.Exit(2)
	}
	switch os.Args[1] {
	case "run":
		fs := flag.NewFlagSet("run", flag.ExitOnError)
		pkg := fs.String("pkg", "rux", "harness package dir")
		h := fs.String("harness", "", "harness function")
		cfg := fs.Int("cfg", 0, "configuration index")
		params := fs.String("params", "", "k=v,k=v")
		solver := fs.String("solver", "z3", "z3|z3-new|cvc5")
		verbose := fs.Bool("v", true, "verbose")
		maxPaths := fs.Int("maxpaths", 100000, "path budget")
		workers := fs.Int("workers", 16, "parallel workers")
		fs.Parse(os.Args[2:])
		w, err := loadWorld()
		if err != nil {
			fmt.Fprintln(os.Stderr, "load:", err)
			os.Exit(2)
		}
		fmt.Fprintf(os.Stderr, "loaded in %.1fs\n", w.loadDur.Seconds())
		opts := RunOpts{MaxPaths: *maxPaths, MaxInstr: 5_000_000, TimeoutMs: 10000, Solver: *solver, Workers: *workers, Verbose: *verbose}
		rs := runJobs(w, []Job{{Pkg: *pkg, Harness: *h, Cfg: *cfg, Params: parseParams(*params)}}, opts)
		for _, r := range rs {
			for _, o := range r.Obls {
				if o.Status != "discharged" {
					b, _ := json.Marshal(o.Model)
					fmt.Printf("%s %s @%s: %s\n", o.Status, o.Msg, o.Pos, b)
				}
			}
			b, _ := json.MarshalIndent(r.Stats, "", " ")
			fmt.Println(string(b))
		}
	case "check":
		os.Exit(cmdCheck(os.Args[2:]))
	case "replay":
		os.Exit(cmdReplay(os.Args[2:]))
	default:
		fmt.Fprintln(os.Stderr, "unknown command", os.Args[1])
		os.Exit(2)
	}
}


func firstMsgFor(msgs []string, f string) string {
	for _, m := range msgs {
		if strings.Contains(m, filepath.Base(f)) {
			return m
		}
	}
	return ""
}
