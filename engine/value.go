// Copyright 2013 The Go Authors. All rights reserved.
// Use of this source code is governed by a BSD-style
// license that can be found in the LICENSE file.
//
// Adapted from golang.org/x/tools/go/ssa/interp (v0.29.0) for symbolic
// execution: scalars may be *Term, strings may be *symStr, maps are *omap.

package main

// Values
//
// - bool | *Term(w=0)
// - numbers (Go-typed when concrete) | *Term(w=N)
// - string | *symStr (concrete length, symbolic bytes)
// - *omap --- maps
// - []value --- slices
// - iface --- interfaces.
// - structure --- structs.
// - array --- arrays.
// - *value --- pointers.
// - *ssa.Function / *ssa.Builtin / *closure --- functions.
// - tuple
// - iter
// - *hostObj --- opaque host objects (compiled regexps, …)

import (
	"bytes"
	"fmt"
	"go/types"
	"io"
	"strings"
	"sync"
	"unsafe"

	"golang.org/x/tools/go/ssa"
	"golang.org/x/tools/go/types/typeutil"
)

type value interface{}

type tuple []value

type array []value

type iface struct {
	t types.Type // never an "untyped" type
	v value
}

type structure []value

type iter interface {
	next() tuple
}

type closure struct {
	Fn  *ssa.Function
	Env []value
}

type bad struct{}

// hostObj wraps a native Go object that the target only handles through
// intrinsics (e.g. *regexp.Regexp, *strings.Replacer).
type hostObj struct {
	kind string
	obj  interface{}
	aux  interface{}
}

// symStr is a string of concrete length whose bytes are 8-bit terms.
type symStr struct {
	b []*Term
}

var (
	mu     sync.Mutex
	hasher = typeutil.MakeHasher()
)

// nil-tolerant variant of types.Identical.
func sameType(x, y types.Type) bool {
	if x == nil {
		return y == nil
	}
	return y != nil && types.Identical(x, y)
}

func toBoolTerm(ts *TermStore, v value) *Term {
	switch v := v.(type) {
	case bool:
		return ts.Bool(v)
	case *Term:
		return v
	}
	panic(engineErr{fmt.Sprintf("toBoolTerm: %T", v)})
}

// fromBoolTerm folds a constant Bool term back to a Go bool.
func fromBoolTerm(t *Term) value {
	if t.IsConst() {
		return t.val == 1
	}
	return t
}

// equalsV returns x == y (Go semantics for type t) as bool or *Term.
func equalsV(ex *Exec, t types.Type, x, y value) value {
	ts := ex.ts
	switch x := x.(type) {
	case *Term:
		return fromBoolTerm(ts.Eq(x, toTermLike(ts, y, x.w)))
	case *symStr:
		return strEq(ts, x, y)
	case string:
		if ys, ok := y.(*symStr); ok {
			return strEq(ts, ys, x)
		}
		return x == y.(string)
	case bool:
		if yt, ok := y.(*Term); ok {
			return fromBoolTerm(ts.Eq(ts.Bool(x), yt))
		}
		return x == y.(bool)
	case int, int8, int16, int32, int64, uint, uint8, uint16, uint32, uint64, uintptr:
		if yt, ok := y.(*Term); ok {
			return fromBoolTerm(ts.Eq(toTermLike(ts, x, yt.w), yt))
		}
		return x == y
	case float32, float64, complex64, complex128:
		return x == y
	case *value:
		return x == y.(*value)
	case chan value:
		return x == y.(chan value)
	case *hostObj:
		yy, _ := y.(*hostObj)
		return x == yy
	case unsafe.Pointer:
		return x == y.(unsafe.Pointer)
	case structure:
		y := y.(structure)
		tStruct := t.Underlying().(*types.Struct)
		acc := ts.Bool(true)
		for i, n := 0, tStruct.NumFields(); i < n; i++ {
			if f := tStruct.Field(i); f.Name() != "_" {
				acc = ts.And(acc, toBoolTerm(ts, equalsV(ex, f.Type(), x[i], y[i])))
			}
		}
		return fromBoolTerm(acc)
	case array:
		y := y.(array)
		tElt := t.Underlying().(*types.Array).Elem()
		acc := ts.Bool(true)
		for i := range x {
			acc = ts.And(acc, toBoolTerm(ts, equalsV(ex, tElt, x[i], y[i])))
		}
		return fromBoolTerm(acc)
	case iface:
		y := y.(iface)
		if !sameType(x.t, y.t) {
			return false
		}
		if x.t == nil {
			return true
		}
		return equalsV(ex, x.t, x.v, y.v)
	case rtype:
		return types.Identical(x.t, y.(rtype).t)
	case *ssa.Function:
		// only reachable through interface comparison of funcs: runtime panic in Go
		panic(rtErr("comparing uncomparable type " + t.String()))
	}
	panic(rtErr(fmt.Sprintf("comparing uncomparable type %s", t)))
}

func strEq(ts *TermStore, x *symStr, y value) value {
	switch y := y.(type) {
	case string:
		if len(y) != len(x.b) {
			return false
		}
		acc := make([]*Term, len(y))
		for i := range x.b {
			acc[i] = ts.Eq(x.b[i], ts.BV(8, uint64(y[i])))
		}
		return fromBoolTerm(ts.And(acc...))
	case *symStr:
		if len(y.b) != len(x.b) {
			return false
		}
		acc := make([]*Term, len(y.b))
		for i := range x.b {
			acc[i] = ts.Eq(x.b[i], y.b[i])
		}
		return fromBoolTerm(ts.And(acc...))
	}
	panic(engineErr{fmt.Sprintf("strEq: %T", y)})
}

// strBytes returns the bytes of a string value as terms.
func strBytes(ts *TermStore, v value) []*Term {
	switch v := v.(type) {
	case string:
		out := make([]*Term, len(v))
		for i := 0; i < len(v); i++ {
			out[i] = ts.BV(8, uint64(v[i]))
		}
		return out
	case *symStr:
		return v.b
	}
	panic(engineErr{fmt.Sprintf("strBytes: %T", v)})
}

// mkStr builds a string value from byte terms (Go string when all constant).
func mkStr(bs []*Term) value {
	for _, b := range bs {
		if !b.IsConst() {
			cp := make([]*Term, len(bs))
			copy(cp, bs)
			return &symStr{cp}
		}
	}
	buf := make([]byte, len(bs))
	for i, b := range bs {
		buf[i] = byte(b.val)
	}
	return string(buf)
}

func strLen(v value) int {
	switch v := v.(type) {
	case string:
		return len(v)
	case *symStr:
		return len(v.b)
	}
	panic(engineErr{fmt.Sprintf("strLen: %T", v)})
}

func isSymStr(v value) bool { _, ok := v.(*symStr); return ok }

// load returns the value of type T in *addr.
func load(T types.Type, addr *value) value {
	switch T := T.Underlying().(type) {
	case *types.Struct:
		v := (*addr).(structure)
		a := make(structure, len(v))
		for i := range a {
			a[i] = load(T.Field(i).Type(), &v[i])
		}
		return a
	case *types.Array:
		v := (*addr).(array)
		a := make(array, len(v))
		for i := range a {
			a[i] = load(T.Elem(), &v[i])
		}
		return a
	default:
		return *addr
	}
}

// store stores value v of type T into *addr.
func store(T types.Type, addr *value, v value) {
	switch T := T.Underlying().(type) {
	case *types.Struct:
		lhs := (*addr).(structure)
		rhs := v.(structure)
		for i := range lhs {
			store(T.Field(i).Type(), &lhs[i], rhs[i])
		}
	case *types.Array:
		lhs := (*addr).(array)
		rhs := v.(array)
		for i := range lhs {
			store(T.Elem(), &lhs[i], rhs[i])
		}
	default:
		*addr = v
	}
}

func writeValue(buf *bytes.Buffer, v value) {
	switch v := v.(type) {
	case nil, bool, int, int8, int16, int32, int64, uint, uint8, uint16, uint32, uint64, uintptr, float32, float64, complex64, complex128, string:
		fmt.Fprintf(buf, "%v", v)
	case *Term:
		buf.WriteString(v.String())
	case *symStr:
		buf.WriteString("sym\"")
		for _, b := range v.b {
			if b.IsConst() {
				buf.WriteString(printableByte(byte(b.val)))
			} else {
				buf.WriteString("?")
			}
		}
		buf.WriteString("\"")
	case *omap:
		buf.WriteString("map[")
		if v != nil {
			for i, e := range v.entries {
				if i > 0 {
					buf.WriteString(" ")
				}
				writeValue(buf, e.key)
				buf.WriteString(":")
				writeValue(buf, e.val)
			}
		}
		buf.WriteString("]")
	case chan value:
		fmt.Fprintf(buf, "%v", v)
	case *value:
		if v == nil {
			buf.WriteString("<nil>")
		} else {
			fmt.Fprintf(buf, "%p", v)
		}
	case iface:
		fmt.Fprintf(buf, "(%s, ", v.t)
		writeValue(buf, v.v)
		buf.WriteString(")")
	case structure:
		buf.WriteString("{")
		for i, e := range v {
			if i > 0 {
				buf.WriteString(" ")
			}
			writeValue(buf, e)
		}
		buf.WriteString("}")
	case array:
		buf.WriteString("[")
		for i, e := range v {
			if i > 0 {
				buf.WriteString(" ")
			}
			writeValue(buf, e)
		}
		buf.WriteString("]")
	case []value:
		buf.WriteString("[")
		for i, e := range v {
			if i > 0 {
				buf.WriteString(" ")
			}
			writeValue(buf, e)
		}
		buf.WriteString("]")
	case *ssa.Function, *ssa.Builtin, *closure:
		fmt.Fprintf(buf, "%p", v)
	case rtype:
		buf.WriteString(v.t.String())
	case tuple:
		buf.WriteString("(")
		for i, e := range v {
			if i > 0 {
				buf.WriteString(", ")
			}
			writeValue(buf, e)
		}
		buf.WriteString(")")
	default:
		fmt.Fprintf(buf, "<%T>", v)
	}
}

func toString(v value) string {
	var b bytes.Buffer
	writeValue(&b, v)
	return b.String()
}

// ------------------------------------------------------------------------
// Iterators

type stringIter struct {
	*strings.Reader
	i int
}

func (it *stringIter) next() tuple {
	okv := make(tuple, 3)
	ch, n, err := it.ReadRune()
	ok := err != io.EOF
	okv[0] = ok
	if ok {
		okv[1] = it.i
		okv[2] = ch
	}
	it.i += n
	return okv
}

// symStrIter ranges over a symbolic string; only ASCII bytes are inside the
// encoding (a byte >= 0x80 puts the path out of bound).
type symStrIter struct {
	ex *Exec
	s  *symStr
	i  int
}

func (it *symStrIter) next() tuple {
	if it.i >= len(it.s.b) {
		return tuple{false, nil, nil}
	}
	b := it.s.b[it.i]
	ts := it.ex.ts
	if !it.ex.branch(ts.Ult(b, ts.BV(8, 0x80))) {
		it.ex.outOfBound("range over symbolic string with non-ASCII byte")
	}
	idx := it.i
	it.i++
	r := ts.ZExt(b, 32)
	var rv value = r
	if r.IsConst() {
		rv = int32(r.val)
	}
	return tuple{true, idx, rv}
}

type rtype struct {
	t types.Type
}
