package main

// Hash-consed SMT terms (booleans and fixed-width bit-vectors) with constant
// folding.  Everything the interpreter computes on symbolic scalars ends up
// here; purely concrete sub-computations fold to constants and never reach
// the solver.

import (
	"fmt"
	"strings"
)

type Term struct {
	op   string
	w    int    // bit width; 0 = Bool
	val  uint64 // const payload (Bool: 0/1)
	name string // var name
	args []*Term
	id   int
	x1   int // extract hi / ext amount
	x2   int // extract lo
}

type TermStore struct {
	tab  map[string]*Term
	n    int
	vars []*Term
}

func NewTermStore() *TermStore { return &TermStore{tab: map[string]*Term{}} }

func (ts *TermStore) intern(t *Term) *Term {
	var sb strings.Builder
	fmt.Fprintf(&sb, "%s|%d|%d|%s|%d|%d", t.op, t.w, t.val, t.name, t.x1, t.x2)
	for _, a := range t.args {
		fmt.Fprintf(&sb, "|%d", a.id)
	}
	k := sb.String()
	if o, ok := ts.tab[k]; ok {
		return o
	}
	ts.n++
	t.id = ts.n
	ts.tab[k] = t
	if t.op == "var" {
		ts.vars = append(ts.vars, t)
	}
	return t
}

func mask(w int) uint64 {
	if w >= 64 {
		return ^uint64(0)
	}
	return (uint64(1) << uint(w)) - 1
}

func (t *Term) IsConst() bool { return t.op == "const" }
func (t *Term) IsTrue() bool  { return t.op == "const" && t.w == 0 && t.val == 1 }
func (t *Term) IsFalse() bool { return t.op == "const" && t.w == 0 && t.val == 0 }

// signed value of a constant
func (t *Term) sval() int64 {
	if t.w >= 64 {
		return int64(t.val)
	}
	v := t.val & mask(t.w)
	if v>>(uint(t.w)-1) == 1 {
		return int64(v | ^mask(t.w))
	}
	return int64(v)
}

func (ts *TermStore) BV(w int, v uint64) *Term {
	return ts.intern(&Term{op: "const", w: w, val: v & mask(w)})
}
func (ts *TermStore) Bool(b bool) *Term {
	v := uint64(0)
	if b {
		v = 1
	}
	return ts.intern(&Term{op: "const", w: 0, val: v})
}
func (ts *TermStore) Var(name string, w int) *Term {
	return ts.intern(&Term{op: "var", w: w, name: name})
}

func (ts *TermStore) Not(a *Term) *Term {
	if a.IsConst() {
		return ts.Bool(a.val == 0)
	}
	if a.op == "not" {
		return a.args[0]
	}
	return ts.intern(&Term{op: "not", args: []*Term{a}})
}

func (ts *TermStore) And(as ...*Term) *Term {
	var out []*Term
	seen := map[int]bool{}
	for _, a := range as {
		if a.IsFalse() {
			return a
		}
		if a.IsTrue() || seen[a.id] {
			continue
		}
		if a.op == "and" {
			for _, b := range a.args {
				if !seen[b.id] {
					seen[b.id] = true
					out = append(out, b)
				}
			}
			continue
		}
		seen[a.id] = true
		out = append(out, a)
	}
	for _, a := range out {
		if a.op == "not" && seen[a.args[0].id] {
			return ts.Bool(false)
		}
	}
	if len(out) == 0 {
		return ts.Bool(true)
	}
	if len(out) == 1 {
		return out[0]
	}
	return ts.intern(&Term{op: "and", args: out})
}

func (ts *TermStore) Or(as ...*Term) *Term {
	var out []*Term
	seen := map[int]bool{}
	for _, a := range as {
		if a.IsTrue() {
			return a
		}
		if a.IsFalse() || seen[a.id] {
			continue
		}
		if a.op == "or" {
			for _, b := range a.args {
				if !seen[b.id] {
					seen[b.id] = true
					out = append(out, b)
				}
			}
			continue
		}
		seen[a.id] = true
		out = append(out, a)
	}
	for _, a := range out {
		if a.op == "not" && seen[a.args[0].id] {
			return ts.Bool(true)
		}
	}
	if len(out) == 0 {
		return ts.Bool(false)
	}
	if len(out) == 1 {
		return out[0]
	}
	return ts.intern(&Term{op: "or", args: out})
}

func (ts *TermStore) Implies(a, b *Term) *Term { return ts.Or(ts.Not(a), b) }

func (ts *TermStore) Ite(c, a, b *Term) *Term {
	if c.IsTrue() {
		return a
	}
	if c.IsFalse() {
		return b
	}
	if a == b {
		return a
	}
	if a.w == 0 {
		if a.IsTrue() && b.IsFalse() {
			return c
		}
		if a.IsFalse() && b.IsTrue() {
			return ts.Not(c)
		}
		return ts.Or(ts.And(c, a), ts.And(ts.Not(c), b))
	}
	return ts.intern(&Term{op: "ite", w: a.w, args: []*Term{c, a, b}})
}

func (ts *TermStore) Eq(a, b *Term) *Term {
	if a == b {
		return ts.Bool(true)
	}
	if a.w != b.w {
		panic(fmt.Sprintf("Eq: width mismatch %d vs %d (%s, %s)", a.w, b.w, a.op, b.op))
	}
	if a.IsConst() && b.IsConst() {
		return ts.Bool(a.val == b.val)
	}
	if a.w == 0 {
		if a.IsConst() {
			a, b = b, a
		}
		if b.IsTrue() {
			return a
		}
		if b.IsFalse() {
			return ts.Not(a)
		}
	}
	// ite(c, k1, k2) == k  with constants
	if b.IsConst() && a.op == "ite" && a.args[1].IsConst() && a.args[2].IsConst() {
		return ts.Ite(a.args[0], ts.Bool(a.args[1].val == b.val), ts.Bool(a.args[2].val == b.val))
	}
	if a.IsConst() && b.op == "ite" && b.args[1].IsConst() && b.args[2].IsConst() {
		return ts.Ite(b.args[0], ts.Bool(b.args[1].val == a.val), ts.Bool(b.args[2].val == a.val))
	}
	if a.id > b.id {
		a, b = b, a
	}
	return ts.intern(&Term{op: "=", args: []*Term{a, b}})
}

func (ts *TermStore) bin(op string, a, b *Term) *Term {
	if a.w != b.w {
		panic(fmt.Sprintf("%s: width mismatch %d vs %d", op, a.w, b.w))
	}
	w := a.w
	if a.IsConst() && b.IsConst() {
		return ts.BV(w, foldBin(op, w, a.val, b.val))
	}
	switch op {
	case "bvadd":
		if a.IsConst() && a.val == 0 {
			return b
		}
		if b.IsConst() && b.val == 0 {
			return a
		}
	case "bvsub":
		if b.IsConst() && b.val == 0 {
			return a
		}
		if a == b {
			return ts.BV(w, 0)
		}
	}
	return ts.intern(&Term{op: op, w: w, args: []*Term{a, b}})
}

func (ts *TermStore) Add(a, b *Term) *Term { return ts.bin("bvadd", a, b) }
func (ts *TermStore) Sub(a, b *Term) *Term { return ts.bin("bvsub", a, b) }
func (ts *TermStore) Mul(a, b *Term) *Term { return ts.bin("bvmul", a, b) }
func (ts *TermStore) Bin(op string, a, b *Term) *Term {
	return ts.bin(op, a, b)
}

func (ts *TermStore) BvNot(a *Term) *Term {
	if a.IsConst() {
		return ts.BV(a.w, ^a.val)
	}
	return ts.intern(&Term{op: "bvnot", w: a.w, args: []*Term{a}})
}
func (ts *TermStore) Neg(a *Term) *Term {
	if a.IsConst() {
		return ts.BV(a.w, -a.val)
	}
	return ts.intern(&Term{op: "bvneg", w: a.w, args: []*Term{a}})
}

func (ts *TermStore) cmp(op string, a, b *Term) *Term {
	if a.w != b.w {
		panic(fmt.Sprintf("%s: width mismatch %d vs %d", op, a.w, b.w))
	}
	if a.IsConst() && b.IsConst() {
		return ts.Bool(foldCmp(op, a.w, a.val, b.val))
	}
	if a == b {
		return ts.Bool(op == "bvule" || op == "bvsle")
	}
	return ts.intern(&Term{op: op, args: []*Term{a, b}})
}
func (ts *TermStore) Ult(a, b *Term) *Term { return ts.cmp("bvult", a, b) }
func (ts *TermStore) Ule(a, b *Term) *Term { return ts.cmp("bvule", a, b) }
func (ts *TermStore) Slt(a, b *Term) *Term { return ts.cmp("bvslt", a, b) }
func (ts *TermStore) Sle(a, b *Term) *Term { return ts.cmp("bvsle", a, b) }

func (ts *TermStore) ZExt(a *Term, w int) *Term {
	if w == a.w {
		return a
	}
	if w < a.w {
		return ts.Extract(a, w-1, 0)
	}
	if a.IsConst() {
		return ts.BV(w, a.val)
	}
	return ts.intern(&Term{op: "zext", w: w, args: []*Term{a}, x1: w - a.w})
}
func (ts *TermStore) SExt(a *Term, w int) *Term {
	if w == a.w {
		return a
	}
	if w < a.w {
		return ts.Extract(a, w-1, 0)
	}
	if a.IsConst() {
		return ts.BV(w, uint64(a.sval()))
	}
	return ts.intern(&Term{op: "sext", w: w, args: []*Term{a}, x1: w - a.w})
}
func (ts *TermStore) Extract(a *Term, hi, lo int) *Term {
	if lo == 0 && hi == a.w-1 {
		return a
	}
	if a.IsConst() {
		return ts.BV(hi-lo+1, a.val>>uint(lo))
	}
	if lo == 0 && (a.op == "zext" || a.op == "sext") && hi+1 <= a.args[0].w {
		return ts.Extract(a.args[0], hi, 0)
	}
	return ts.intern(&Term{op: "extract", w: hi - lo + 1, args: []*Term{a}, x1: hi, x2: lo})
}

// ---- SMT-LIB printing -------------------------------------------------

func sortOf(t *Term) string {
	if t.w == 0 {
		return "Bool"
	}
	return fmt.Sprintf("(_ BitVec %d)", t.w)
}

func (t *Term) sym() string {
	switch t.op {
	case "const":
		if t.w == 0 {
			if t.val == 1 {
				return "true"
			}
			return "false"
		}
		return fmt.Sprintf("(_ bv%d %d)", t.val, t.w)
	case "var":
		return t.name
	}
	return fmt.Sprintf("t%d", t.id)
}

// body renders a non-leaf term over the symbols of its children.
func (t *Term) body() string {
	var sb strings.Builder
	switch t.op {
	case "zext":
		fmt.Fprintf(&sb, "((_ zero_extend %d) %s)", t.x1, t.args[0].sym())
		return sb.String()
	case "sext":
		fmt.Fprintf(&sb, "((_ sign_extend %d) %s)", t.x1, t.args[0].sym())
		return sb.String()
	case "extract":
		fmt.Fprintf(&sb, "((_ extract %d %d) %s)", t.x1, t.x2, t.args[0].sym())
		return sb.String()
	}
	sb.WriteString("(")
	sb.WriteString(t.op)
	for _, a := range t.args {
		sb.WriteString(" ")
		sb.WriteString(a.sym())
	}
	sb.WriteString(")")
	return sb.String()
}

// String gives a readable (tree) rendering, for evidence samples and debugging.
func (t *Term) String() string {
	return t.str(0)
}

func (t *Term) str(depth int) string {
	switch t.op {
	case "const", "var":
		if t.op == "const" && t.w > 0 {
			return fmt.Sprintf("%d", t.val)
		}
		return t.sym()
	}
	if depth > 6 {
		return "…"
	}
	var sb strings.Builder
	sb.WriteString("(")
	sb.WriteString(t.op)
	for _, a := range t.args {
		sb.WriteString(" ")
		sb.WriteString(a.str(depth + 1))
	}
	sb.WriteString(")")
	return sb.String()
}


func sext64(w int, v uint64) int64 {
	if w >= 64 {
		return int64(v)
	}
	v &= mask(w)
	if v>>(uint(w)-1) == 1 {
		return int64(v | ^mask(w))
	}
	return int64(v)
}

func foldCmp(op string, w int, x, y uint64) bool {
	switch op {
	case "bvult":
		return x < y
	case "bvule":
		return x <= y
	case "bvslt":
		return sext64(w, x) < sext64(w, y)
	case "bvsle":
		return sext64(w, x) <= sext64(w, y)
	}
	panic("foldCmp " + op)
}

func foldBin(op string, w int, x, y uint64) uint64 {
	sx, sy := sext64(w, x), sext64(w, y)
	var r uint64
	switch op {
	case "bvadd":
		r = x + y
	case "bvsub":
		r = x - y
	case "bvmul":
		r = x * y
	case "bvand":
		r = x & y
	case "bvor":
		r = x | y
	case "bvxor":
		r = x ^ y
	case "bvudiv":
		if y == 0 {
			r = mask(w)
		} else {
			r = x / y
		}
	case "bvurem":
		if y == 0 {
			r = x
		} else {
			r = x % y
		}
	case "bvsdiv":
		if y == 0 {
			if sx < 0 {
				r = 1
			} else {
				r = mask(w)
			}
		} else if sy == -1 {
			r = uint64(-sx)
		} else {
			r = uint64(sx / sy)
		}
	case "bvsrem":
		if y == 0 {
			r = x
		} else if sy == -1 {
			r = 0
		} else {
			r = uint64(sx % sy)
		}
	case "bvshl":
		if y >= uint64(w) {
			r = 0
		} else {
			r = x << y
		}
	case "bvlshr":
		if y >= uint64(w) {
			r = 0
		} else {
			r = x >> y
		}
	case "bvashr":
		if y >= uint64(w) {
			if sx < 0 {
				r = mask(w)
			} else {
				r = 0
			}
		} else {
			r = uint64(sx >> y)
		}
	default:
		panic("foldBin " + op)
	}
	return r & mask(w)
}
