package main

// Minimal reflect intrinsics (what Router.Resource uses), answered from
// go/types: ValueOf, Value.Type/Kind/Elem/MethodByName/IsValid/Interface,
// Type.Kind/Elem/Name.  A reflect.Value is a 3-slot structure
// {rtype, payload, unused}; a reflect.Type is an iface holding an rtype.

import (
	"fmt"
	"go/types"
	"reflect"

	"golang.org/x/tools/go/ssa"
)

// boundMethod is a method value produced by reflection.
type boundMethod struct {
	fn   *ssa.Function
	recv value
}

// rtypeMethod is a method of reflect.Type invoked through the interface.
type rtypeMethod struct{ name string }

var rtypeIfaceT = types.NewNamed(types.NewTypeName(0, nil, "verifReflectType", nil), types.NewStruct(nil, nil), nil)

func kindOf(t types.Type) reflect.Kind {
	switch u := t.Underlying().(type) {
	case *types.Pointer:
		return reflect.Ptr
	case *types.Struct:
		return reflect.Struct
	case *types.Signature:
		return reflect.Func
	case *types.Interface:
		return reflect.Interface
	case *types.Map:
		return reflect.Map
	case *types.Slice:
		return reflect.Slice
	case *types.Array:
		return reflect.Array
	case *types.Chan:
		return reflect.Chan
	case *types.Basic:
		switch u.Kind() {
		case types.Bool:
			return reflect.Bool
		case types.Int:
			return reflect.Int
		case types.Int8:
			return reflect.Int8
		case types.Int16:
			return reflect.Int16
		case types.Int32:
			return reflect.Int32
		case types.Int64:
			return reflect.Int64
		case types.Uint:
			return reflect.Uint
		case types.Uint8:
			return reflect.Uint8
		case types.Uint16:
			return reflect.Uint16
		case types.Uint32:
			return reflect.Uint32
		case types.Uint64:
			return reflect.Uint64
		case types.Uintptr:
			return reflect.Uintptr
		case types.Float32:
			return reflect.Float32
		case types.Float64:
			return reflect.Float64
		case types.String:
			return reflect.String
		case types.UnsafePointer:
			return reflect.UnsafePointer
		}
	}
	return reflect.Invalid
}

func rvalue(t types.Type, payload value) value { return structure{rtype{t}, payload, nil} }

func rvType(v value) (types.Type, value, bool) {
	st, ok := v.(structure)
	if !ok || len(st) < 2 {
		return nil, nil, false
	}
	rt, ok := st[0].(rtype)
	if !ok {
		return nil, nil, false
	}
	return rt.t, st[1], true
}

func callRtypeMethod(fr *frame, m *rtypeMethod, args []value) value {
	rt := args[0].(rtype)
	switch m.name {
	case "Kind":
		return uint(kindOf(rt.t))
	case "Elem":
		switch u := rt.t.Underlying().(type) {
		case *types.Pointer:
			return iface{rtypeIfaceT, rtype{u.Elem()}}
		case *types.Slice:
			return iface{rtypeIfaceT, rtype{u.Elem()}}
		case *types.Map:
			return iface{rtypeIfaceT, rtype{u.Elem()}}
		case *types.Array:
			return iface{rtypeIfaceT, rtype{u.Elem()}}
		}
		panic(targetPanic{iface{types_String, "reflect: Elem of invalid type " + rt.t.String()}})
	case "Name":
		if n, ok := rt.t.(*types.Named); ok {
			return n.Obj().Name()
		}
		if b, ok := rt.t.(*types.Basic); ok {
			return b.Name()
		}
		return ""
	case "String":
		return rt.t.String()
	case "NumMethod":
		return types.NewMethodSet(rt.t).Len()
	case "PkgPath":
		if n, ok := rt.t.(*types.Named); ok && n.Obj().Pkg() != nil {
			return n.Obj().Pkg().Path()
		}
		return ""
	case "Comparable":
		return types.Comparable(rt.t)
	case "Implements", "AssignableTo", "ConvertibleTo":
		oi, _ := args[1].(iface)
		ot, ok := oi.v.(rtype)
		if !ok {
			panic(targetPanic{iface{types_String, "reflect: nil type passed to Type." + m.name}})
		}
		switch m.name {
		case "Implements":
			u, ok := ot.t.Underlying().(*types.Interface)
			if !ok {
				panic(targetPanic{iface{types_String, "reflect: non-interface type passed to Type.Implements"}})
			}
			return types.Implements(rt.t, u)
		case "AssignableTo":
			return types.AssignableTo(rt.t, ot.t)
		}
		return types.ConvertibleTo(rt.t, ot.t)
	case "NumField":
		st, ok := rt.t.Underlying().(*types.Struct)
		if !ok {
			panic(targetPanic{iface{types_String, "reflect: NumField of non-struct type " + rt.t.String()}})
		}
		return st.NumFields()
	case "Field":
		st, ok := rt.t.Underlying().(*types.Struct)
		if !ok {
			panic(targetPanic{iface{types_String, "reflect: Field of non-struct type " + rt.t.String()}})
		}
		k, ok := args[1].(int)
		if !ok {
			fr.ex().unsupported("reflect.Type.Field with a symbolic index")
		}
		if k < 0 || k >= st.NumFields() {
			panic(targetPanic{iface{types_String, "reflect: Field index out of bounds"}})
		}
		sfT := reflectNamed(fr, "StructField")
		sf := zero(sfT).(structure)
		f := st.Field(k)
		sf[fieldIndex(sfT, "Name")] = f.Name()
		if !f.Exported() && f.Pkg() != nil {
			sf[fieldIndex(sfT, "PkgPath")] = f.Pkg().Path()
		}
		sf[fieldIndex(sfT, "Type")] = iface{rtypeIfaceT, rtype{f.Type()}}
		sf[fieldIndex(sfT, "Tag")] = st.Tag(k)
		sf[fieldIndex(sfT, "Anonymous")] = f.Embedded()
		return sf
	case "MethodByName":
		name := concStr(fr, args[1], "reflect.Type.MethodByName")
		mT := reflectNamed(fr, "Method")
		m := zero(mT).(structure)
		ms := fr.i.prog.MethodSets.MethodSet(rt.t)
		for k := 0; k < ms.Len(); k++ {
			sel := ms.At(k)
			if sel.Obj().Name() == name && sel.Obj().Exported() {
				m[fieldIndex(mT, "Name")] = name
				m[fieldIndex(mT, "Index")] = k
				return tuple{m, true}
			}
		}
		return tuple{m, false}
	}
	fr.ex().unsupported("reflect.Type." + m.name)
	return nil
}

func reflectNamed(fr *frame, name string) types.Type {
	pkg := fr.i.prog.ImportedPackage("reflect")
	if pkg == nil || pkg.Type(name) == nil {
		panic(engineErr{"reflect." + name + " not loaded"})
	}
	return pkg.Type(name).Type()
}

func init() {
	intrinsics["(reflect.StructTag).Get"] = func(fr *frame, args []value) value {
		return string(reflect.StructTag(concStr(fr, args[0], "StructTag.Get")).Get(concStr(fr, args[1], "StructTag.Get")))
	}
	intrinsics["(reflect.StructTag).Lookup"] = func(fr *frame, args []value) value {
		v, ok := reflect.StructTag(concStr(fr, args[0], "StructTag.Lookup")).Lookup(concStr(fr, args[1], "StructTag.Lookup"))
		return tuple{v, ok}
	}
	intrinsics["reflect.ValueOf"] = func(fr *frame, args []value) value {
		a := args[0].(iface)
		if a.t == nil {
			return structure{(*value)(nil), nil, nil}
		}
		return rvalue(a.t, a.v)
	}
	intrinsics["reflect.TypeOf"] = func(fr *frame, args []value) value {
		a := args[0].(iface)
		if a.t == nil {
			return iface{}
		}
		return iface{rtypeIfaceT, rtype{a.t}}
	}
	intrinsics["(reflect.Value).Type"] = func(fr *frame, args []value) value {
		t, _, ok := rvType(args[0])
		if !ok {
			panic(targetPanic{iface{types_String, "reflect: call of reflect.Value.Type on zero Value"}})
		}
		return iface{rtypeIfaceT, rtype{t}}
	}
	intrinsics["(reflect.Value).Kind"] = func(fr *frame, args []value) value {
		t, _, ok := rvType(args[0])
		if !ok {
			return uint(0)
		}
		return uint(kindOf(t))
	}
	intrinsics["(reflect.Value).IsValid"] = func(fr *frame, args []value) value {
		_, _, ok := rvType(args[0])
		return ok
	}
	intrinsics["(reflect.Value).Elem"] = func(fr *frame, args []value) value {
		t, p, ok := rvType(args[0])
		if !ok {
			panic(targetPanic{iface{types_String, "reflect: call of reflect.Value.Elem on zero Value"}})
		}
		switch u := t.Underlying().(type) {
		case *types.Pointer:
			pv, _ := p.(*value)
			if pv == nil {
				return structure{(*value)(nil), nil, nil}
			}
			return rvalue(u.Elem(), load(u.Elem(), pv))
		case *types.Interface:
			if i, ok := p.(iface); ok && i.t != nil {
				return rvalue(i.t, i.v)
			}
			return structure{(*value)(nil), nil, nil}
		}
		panic(targetPanic{iface{types_String, "reflect: call of reflect.Value.Elem on " + kindOf(t).String() + " Value"}})
	}
	intrinsics["(reflect.Value).MethodByName"] = func(fr *frame, args []value) value {
		t, p, ok := rvType(args[0])
		if !ok {
			panic(targetPanic{iface{types_String, "reflect: call of reflect.Value.MethodByName on zero Value"}})
		}
		name := concStr(fr, args[1], "MethodByName")
		ms := fr.i.prog.MethodSets.MethodSet(t)
		for k := 0; k < ms.Len(); k++ {
			sel := ms.At(k)
			if sel.Obj().Name() != name || !sel.Obj().Exported() {
				continue
			}
			f := fr.i.prog.MethodValue(sel)
			if f == nil {
				break
			}
			sig := sel.Type().(*types.Signature)
			ft := types.NewSignatureType(nil, nil, nil, sig.Params(), sig.Results(), sig.Variadic())
			return rvalue(ft, &boundMethod{fn: f, recv: p})
		}
		return structure{(*value)(nil), nil, nil}
	}
	intrinsics["(reflect.Value).Interface"] = func(fr *frame, args []value) value {
		t, p, ok := rvType(args[0])
		if !ok {
			panic(targetPanic{iface{types_String, "reflect: call of reflect.Value.Interface on zero Value"}})
		}
		return iface{t, p}
	}
	_ = fmt.Sprint
}
