package main

// C03: shared-memory event log + clock (partial-order) encoding of
// interleavings.  Each request is executed on its own by the interpreter;
// every load/store of a location that is shared (reachable from the router
// when sharing starts, or allocated by another thread since) and every
// lock/unlock is logged with the thread's program-order index.  A pair of
// conflicting accesses of two threads becomes a solver query over clock
// variables: program order inside each thread, mutual exclusion of
// conflicting critical sections of the same lock (two RLock sections do not
// exclude each other), and "both accesses at the same logical time".  sat =
// an interleaving with a data race (the model is a schedule); unsat = the
// pair is ordered in every interleaving.

import (
	"fmt"
	"go/types"
	"sort"
	"strings"
)

type lockSection struct {
	lock   *value
	write  bool // Lock (true) or RLock (false)
	thread int
	acq    int
	rel    int // -1 while held
	pos    string
}

type access struct {
	thread int
	idx    int
	addr   interface{} // *value or *omap
	write  bool
	pos    string
	what   string
}

// poolRec: an object was Put by one request and later handed out by Get to
// another one; sync.Pool orders the Put before the Get.
type poolRec struct {
	putThread, putIdx int
	getThread, getIdx int
}

type concState struct {
	on       bool
	shared   map[interface{}]string
	owner    map[interface{}]int
	ownerIdx map[interface{}]int // program-order index of the allocation in the owner's trace
	poolCell map[interface{}][]*poolRec // cells of objects that went through a sync.Pool
	handovers []*poolRec                // every Put (completed by the Get that received the object)
	thread   int
	counter  map[int]int
	held     map[int][]*lockSection
	reentries []reentry // a lock taken again by the thread that holds it
	sections []*lockSection
	accesses []access
	seenAcc  map[string]bool
}

func newConcState() *concState {
	return &concState{shared: map[interface{}]string{}, owner: map[interface{}]int{}, ownerIdx: map[interface{}]int{}, poolCell: map[interface{}][]*poolRec{}, counter: map[int]int{},
		held: map[int][]*lockSection{}, seenAcc: map[string]bool{}}
}

func (c *concState) tick() int {
	c.counter[c.thread]++
	return c.counter[c.thread]
}

// markShared walks the heap reachable from v and marks every cell.
func (c *concState) markShared(v value, name string, seen map[interface{}]bool, depth int) {
	if depth > 200 {
		return
	}
	switch x := v.(type) {
	case *value:
		if x == nil || seen[x] {
			return
		}
		seen[x] = true
		c.markCell(x, name, seen, depth)
	case []value:
		if x == nil {
			return
		}
		full := x[:cap(x)]
		for k := range full {
			p := &full[k]
			if seen[p] {
				continue
			}
			seen[p] = true
			c.markCell(p, fmt.Sprintf("%s[%d]", name, k), seen, depth+1)
		}
	case *omap:
		if x == nil || seen[x] {
			return
		}
		seen[x] = true
		c.shared[x] = name + " (map)"
		for _, e := range x.entries {
			c.markShared(e.val, name+"[…]", seen, depth+1)
		}
	case iface:
		c.markShared(x.v, name, seen, depth+1)
	case *closure:
		if x == nil {
			return
		}
		for k, e := range x.Env {
			c.markShared(e, fmt.Sprintf("%s.env%d", name, k), seen, depth+1)
		}
	case *boundMethod:
		c.markShared(x.recv, name, seen, depth+1)
	case structure:
		for k := range x {
			p := &x[k]
			if !seen[p] {
				seen[p] = true
				c.markCell(p, fmt.Sprintf("%s.f%d", name, k), seen, depth+1)
			}
		}
	case array:
		for k := range x {
			p := &x[k]
			if !seen[p] {
				seen[p] = true
				c.markCell(p, fmt.Sprintf("%s[%d]", name, k), seen, depth+1)
			}
		}
	}
}

func (c *concState) markCell(p *value, name string, seen map[interface{}]bool, depth int) {
	switch inner := (*p).(type) {
	case structure, array:
		c.markShared(inner, name, seen, depth+1)
	default:
		c.shared[p] = name
		c.markShared(inner, name, seen, depth+1)
	}
}

func (c *concState) relevant(addr interface{}) bool {
	if _, ok := c.shared[addr]; ok {
		return true
	}
	if o, ok := c.owner[addr]; ok && o != 0 {
		// allocated by one of the requests: it may have been published to the
		// other one, so both requests' accesses are logged
		return true
	}
	return false
}

// leafCells lists the cells of the object p points to (nested structs and
// arrays included, pointers and slices not followed).
func leafCells(p *value, out *[]*value) {
	if p == nil {
		return
	}
	switch inner := (*p).(type) {
	case structure:
		for k := range inner {
			leafCells(&inner[k], out)
		}
	case array:
		for k := range inner {
			leafCells(&inner[k], out)
		}
	default:
		*out = append(*out, p)
	}
}

// poolPut / poolGet record the hand-over of an object through a sync.Pool.
func (i *interpreter) poolPut(obj value) {
	c := i.conc
	if c == nil || !c.on || c.thread == 0 {
		return
	}
	var p *value
	switch o := obj.(type) {
	case iface:
		p, _ = o.v.(*value)
	case *value:
		p = o
	}
	var cells []*value
	leafCells(p, &cells)
	rec := &poolRec{putThread: c.thread, putIdx: c.tick()}
	c.handovers = append(c.handovers, rec)
	for _, cell := range cells {
		c.poolCell[cell] = append(c.poolCell[cell], rec)
		c.shared[cell] = "pooled object"
	}
}

func (i *interpreter) poolGet(obj value) {
	c := i.conc
	if c == nil || !c.on || c.thread == 0 {
		return
	}
	var p *value
	switch o := obj.(type) {
	case iface:
		p, _ = o.v.(*value)
	case *value:
		p = o
	}
	var cells []*value
	leafCells(p, &cells)
	idx := c.tick()
	for _, cell := range cells {
		c.shared[cell] = "pooled object"
		if recs := c.poolCell[cell]; len(recs) > 0 {
			if rec := recs[len(recs)-1]; rec.getThread == 0 && rec.putThread != c.thread {
				rec.getThread, rec.getIdx = c.thread, idx
			}
		}
	}
}

func (i *interpreter) noteAlloc(p interface{}) {
	c := i.conc
	if c == nil || !c.on || c.thread == 0 {
		return
	}
	c.owner[p] = c.thread
	c.ownerIdx[p] = c.counter[c.thread]
}

func (i *interpreter) noteAllocSlice(s []value) {
	c := i.conc
	if c == nil || !c.on || c.thread == 0 {
		return
	}
	full := s[:cap(s)]
	for k := range full {
		c.owner[&full[k]] = c.thread
		c.ownerIdx[&full[k]] = c.counter[c.thread]
	}
}

// logAccess records a load/store of one cell (leaf) if it is shared.
func (i *interpreter) logAccess(addr interface{}, write bool, fr *frame) {
	c := i.conc
	if c == nil || !c.on || c.thread == 0 || !c.relevant(addr) {
		return
	}
	pos := ""
	if fr != nil {
		pos = fr.where()
	}
	key := fmt.Sprintf("%d|%p|%v|%s|%d", c.thread, addr, write, pos, len(c.held[c.thread]))
	if c.seenAcc[key] {
		c.tick()
		return
	}
	c.seenAcc[key] = true
	what := c.shared[addr]
	if what == "" {
		what = fmt.Sprintf("object allocated by request %d", c.owner[addr])
	}
	c.accesses = append(c.accesses, access{thread: c.thread, idx: c.tick(), addr: addr, write: write, pos: pos, what: what})
}

// logAccessDeep logs every leaf cell of an aggregate.
func (i *interpreter) logAccessDeep(T types.Type, addr *value, write bool, fr *frame) {
	c := i.conc
	if c == nil || !c.on || c.thread == 0 || addr == nil {
		return
	}
	switch T := T.Underlying().(type) {
	case *types.Struct:
		if st, ok := (*addr).(structure); ok {
			for k := range st {
				i.logAccessDeep(T.Field(k).Type(), &st[k], write, fr)
			}
			return
		}
	case *types.Array:
		if ar, ok := (*addr).(array); ok {
			for k := range ar {
				i.logAccessDeep(T.Elem(), &ar[k], write, fr)
			}
			return
		}
	}
	i.logAccess(addr, write, fr)
}

func (i *interpreter) lockOp(name string, p *value, fr *frame) {
	c := i.conc
	if c == nil || !c.on || c.thread == 0 {
		return
	}
	t := c.thread
	switch {
	case strings.HasSuffix(name, ".Lock"), strings.HasSuffix(name, ".RLock"):
		s := &lockSection{lock: p, write: strings.HasSuffix(name, ".Lock"), thread: t, acq: c.tick(), rel: -1, pos: callerWhere(fr)}
		for _, h := range c.held[t] {
			if h.lock == p {
				// the same lock taken again while held: sync's mutexes are not reentrant
				c.reentries = append(c.reentries, reentry{outer: h, inner: s})
			}
		}
		c.held[t] = append(c.held[t], s)
		c.sections = append(c.sections, s)
	default:
		wantWrite := strings.HasSuffix(name, ".Unlock")
		hs := c.held[t]
		for k := len(hs) - 1; k >= 0; k-- {
			if hs[k].lock == p && hs[k].write == wantWrite {
				hs[k].rel = c.tick()
				c.held[t] = append(hs[:k:k], hs[k+1:]...)
				break
			}
		}
	}
}

type reentry struct{ outer, inner *lockSection }

// orderedByPool: access x happens before its thread Puts the object and access y
// after the other thread's matching Get (program order + Put-before-Get).
func (i *interpreter) orderedByPool(a, b access) bool {
	// Put(x) happens before the Get that returns x (Go memory model), so every
	// access of the putting thread before the Put precedes every access of the
	// getting thread after the Get - whatever object is accessed.
	for _, rec := range i.conc.handovers {
		if rec.getThread == 0 {
			continue
		}
		if rec.putThread == a.thread && rec.getThread == b.thread && a.idx < rec.putIdx && b.idx > rec.getIdx {
			return true
		}
		if rec.putThread == b.thread && rec.getThread == a.thread && b.idx < rec.putIdx && a.idx > rec.getIdx {
			return true
		}
	}
	return false
}

// raceQuery builds the clock formula for two conflicting accesses and asks
// the solver whether they can happen at the same logical time.
func (i *interpreter) raceQuery(a, b access) string {
	ex := i.ex
	ts := ex.ts
	c := i.conc
	const W = 16
	type point struct {
		idx int
		t   *Term
	}
	pts := map[int][]point{}
	clock := func(thread, idx int, label string) *Term {
		for _, p := range pts[thread] {
			if p.idx == idx {
				return p.t
			}
		}
		ex.nvar++
		t := ts.Var(fmt.Sprintf("clk%d_t%d_%d_%s", ex.nvar, thread, idx, label), W)
		pts[thread] = append(pts[thread], point{idx, t})
		return t
	}
	var cons []*Term
	ca := clock(a.thread, a.idx, "acc")
	cb := clock(b.thread, b.idx, "acc")
	maxIdx := map[int]int{a.thread: c.counter[a.thread] + 1, b.thread: c.counter[b.thread] + 1}
	type sec struct {
		s        *lockSection
		acq, rel *Term
	}
	var secs []sec
	for _, s := range c.sections {
		if s.thread != a.thread && s.thread != b.thread {
			continue
		}
		rel := s.rel
		if rel < 0 {
			rel = maxIdx[s.thread]
		}
		secs = append(secs, sec{s, clock(s.thread, s.acq, "acq"), clock(s.thread, rel, "rel")})
	}
	// program order
	for _, th := range []int{a.thread, b.thread} {
		ps := pts[th]
		sort.Slice(ps, func(x, y int) bool { return ps[x].idx < ps[y].idx })
		for k := 0; k+1 < len(ps); k++ {
			cons = append(cons, ts.Ult(ps[k].t, ps[k+1].t))
		}
	}
	// mutual exclusion of conflicting sections of the same lock
	for x := 0; x < len(secs); x++ {
		for y := x + 1; y < len(secs); y++ {
			sx, sy := secs[x], secs[y]
			if sx.s.thread == sy.s.thread || sx.s.lock != sy.s.lock || (!sx.s.write && !sy.s.write) {
				continue
			}
			cons = append(cons, ts.Or(ts.Ult(sx.rel, sy.acq), ts.Ult(sy.rel, sx.acq)))
		}
	}
	// publication order: an access by X to an object allocated by Y happened,
	// in the observed run, after X left/entered a critical section that follows
	// Y's first critical section (same lock) after the allocation - X can only
	// have obtained the reference from what Y published under that lock.
	for _, acc := range []access{a, b} {
		y, owned := c.owner[acc.addr]
		if !owned || y == acc.thread || y == 0 {
			continue
		}
		alloc := c.ownerIdx[acc.addr]
		var sx *sec
		for k := range secs {
			s := &secs[k]
			if s.s.thread == acc.thread && s.s.acq < acc.idx && (sx == nil || s.s.acq > sx.s.acq) {
				sx = s
			}
		}
		if sx == nil {
			continue
		}
		var sy *sec
		for k := range secs {
			s := &secs[k]
			if s.s.thread == y && s.s.lock == sx.s.lock && s.s.acq > alloc && (sy == nil || s.s.acq < sy.s.acq) {
				sy = s
			}
		}
		if sy != nil {
			cons = append(cons, ts.Ult(sy.rel, sx.acq))
		}
	}
	// sync.Pool: the Put of an object happens before the Get that hands it out
	for _, rec := range c.handovers {
		if rec.getThread == 0 || !((rec.putThread == a.thread && rec.getThread == b.thread) || (rec.putThread == b.thread && rec.getThread == a.thread)) {
			continue
		}
		cput := clock(rec.putThread, rec.putIdx, "put")
		cget := clock(rec.getThread, rec.getIdx, "get")
		// re-establish program order including the two new points
		for _, th := range []int{a.thread, b.thread} {
			ps := pts[th]
			sort.Slice(ps, func(x, y int) bool { return ps[x].idx < ps[y].idx })
			for k := 0; k+1 < len(ps); k++ {
				cons = append(cons, ts.Ult(ps[k].t, ps[k+1].t))
			}
		}
		cons = append(cons, ts.Ult(cput, cget))
	}
	cons = append(cons, ts.Eq(ca, cb))
	f := ts.And(cons...)
	if f.IsFalse() {
		return "unsat"
	}
	return ex.sol.CheckObligation(Lit{f, false})
}

func init() {
	verifIntrinsics["verifShare"] = func(fr *frame, args []value) value {
		if fr.i.conc == nil {
			fr.i.conc = newConcState()
		}
		c := fr.i.conc
		c.on = true
		c.markShared(args[0], "router", map[interface{}]bool{}, 0)
		return nil
	}
	verifIntrinsics["verifThread"] = func(fr *frame, args []value) value {
		if fr.i.conc != nil {
			fr.i.conc.thread = args[0].(int)
		}
		return nil
	}
	// verifRaceCheck: one obligation per distinct pair of conflicting source
	// positions of two different threads.
	verifIntrinsics["verifRaceCheck"] = func(fr *frame, args []value) value {
		c := fr.i.conc
		ex := fr.ex()
		if c == nil {
			return 0
		}
		c.thread = 0
		done := map[string]bool{}
		npairs := 0
		// a lock re-acquired while held: a write lock (or a read lock under a write lock) blocks on
		// itself; a read lock under a read lock blocks as soon as another request's Lock() falls in
		// between (a waiting writer bars new readers) - such a writer exists if the other request has
		// a write section on that lock
		seenRe := map[string]bool{}
		for _, re := range c.reentries {
			blocks := re.outer.write || re.inner.write
			if !blocks {
				for _, s := range c.sections {
					if s.thread != re.outer.thread && s.thread != 0 && s.lock == re.outer.lock && s.write {
						blocks = true
					}
				}
			}
			key := re.outer.pos + "|" + re.inner.pos
			if seenRe[key] {
				continue
			}
			seenRe[key] = true
			ex.stats.Obligations++
			ob := &Obligation{Harness: ex.harness, Cfg: ex.cfg, Pos: re.outer.pos + " / " + re.inner.pos,
				Msg: fmt.Sprintf("no request blocks forever: request %d takes the lock it already holds (held since %s, taken again at %s) while the other request may be waiting to write-lock it", re.outer.thread, re.outer.pos, re.inner.pos)}
			if blocks {
				ob.Status = "violated"
				ob.Model = ex.model()
				ob.Prefix = append([]int(nil), ex.decisions...)
				ex.stats.Violated++
			} else {
				ob.Status = "discharged"
				ex.stats.Discharged++
			}
			ex.obls = append(ex.obls, ob)
		}
		for x := 0; x < len(c.accesses); x++ {
			for y := x + 1; y < len(c.accesses); y++ {
				a, b := c.accesses[x], c.accesses[y]
				if a.thread == b.thread || a.addr != b.addr || (!a.write && !b.write) {
					continue
				}
				key := a.pos + "|" + b.pos + "|" + fmt.Sprint(a.write, b.write)
				if done[key] {
					continue
				}
				done[key] = true
				npairs++
				// both accesses on a pooled object, one before its Put and the other after the
				// matching Get: ordered by the pool's hand-over, no query needed
				if fr.i.orderedByPool(a, b) {
					ex.stats.Obligations++
					ex.stats.Discharged++
					ex.stats.Covers["C03 pairs ordered by the sync.Pool hand-over"]++
					continue
				}
				r := fr.i.raceQuery(a, b)
				kind := func(w bool) string {
					if w {
						return "write"
					}
					return "read"
				}
				msg := fmt.Sprintf("no data race: request %d %ss %s at %s while request %d %ss it at %s", a.thread, kind(a.write), a.what, a.pos, b.thread, kind(b.write), b.pos)
				ex.stats.Obligations++
				ob := &Obligation{Harness: ex.harness, Cfg: ex.cfg, Msg: msg, Pos: a.pos + " / " + b.pos}
				switch r {
				case "unsat":
					ob.Status = "discharged"
					ex.stats.Discharged++
				case "sat":
					ob.Status = "violated"
					ob.Model = ex.model()
					ob.Prefix = append([]int(nil), ex.decisions...)
					ex.stats.Violated++
				default:
					ob.Status = "unknown"
					ex.stats.Unknown++
				}
				ex.obls = append(ex.obls, ob)
			}
		}
		ex.stats.Covers[fmt.Sprintf("C03 conflicting access pairs examined")] += npairs
		ex.stats.Covers["C03 shared accesses logged"] += len(c.accesses)
		return npairs
	}
}

func init() {
	verifIntrinsics["verifConcDump"] = func(fr *frame, args []value) value {
		c := fr.i.conc
		if c == nil {
			return nil
		}
		for _, a := range c.accesses {
			for _, rec := range c.poolCell[a.addr] {
				fmt.Printf("ACC t=%d idx=%d w=%v pos=%s rec={put %d@%d get %d@%d}\n", a.thread, a.idx, a.write, a.pos, rec.putThread, rec.putIdx, rec.getThread, rec.getIdx)
			}
		}
		return nil
	}
}
