package main

// Boundary stubs: I/O, codecs, validator, net/http pieces that lie outside
// the encoding.  Each records an event in the interpreter's event log (read
// back by harnesses through verifEvent*) and returns a value allowed by the
// callee's documented contract (harness-provided ghost values, symbolic
// error flags).

import (
	"net/url"
	"strings"
	"fmt"
	"go/types"
)

type evRec struct {
	kind string
	args []value
}

type hostMethod struct {
	obj  *hostObj
	name string
}

func (i *interpreter) event(kind string, args ...value) {
	i.events = append(i.events, evRec{kind, args})
}

// symErr returns nil or a non-nil error, decided by a fresh symbolic flag
// (forked), unless the harness fixed the outcome through a ghost value.
func symErr(fr *frame, label string) value {
	if g, ok := fr.i.ghost["err."+label]; ok {
		if b, _ := g.(bool); b {
			return fr.i.mkError("verif: " + label + " failed")
		}
		if s, _ := g.(string); s == "EOF" {
			// the decoder found nothing to read: io.EOF itself
			if pkg := fr.i.prog.ImportedPackage("io"); pkg != nil && pkg.Var("EOF") != nil {
				return *(fr.get(pkg.Var("EOF")).(*value))
			}
		}
		return iface{}
	}
	if fr.ex().concrete {
		if rv := fr.ex().nextVec("bool", "err_"+label); rv.Int != 0 {
			return fr.i.mkError("verif: " + label + " failed")
		}
		return iface{}
	}
	ex := fr.ex()
	t := ex.fresh("err_"+label, 0)
	ex.inputs = append(ex.inputs, &inputRec{Kind: "bool", Label: "err_" + label, terms: []*Term{t}})
	if ex.branch(t) {
		return fr.i.mkError("verif: " + label + " failed")
	}
	return iface{}
}

func ghostOr(fr *frame, name string, def value) value {
	if g, ok := fr.i.ghost[name]; ok {
		return g
	}
	return def
}

func callHostMethod(fr *frame, m *hostMethod, args []value) value {
	key := m.obj.kind + "." + m.name
	if f, ok := hostMethods[key]; ok {
		return f(fr, m.obj, args)
	}
	fr.ex().unsupported("host object method " + key)
	return nil
}

var hostMethods = map[string]func(fr *frame, o *hostObj, args []value) value{}

func structField(fr *frame, p value, name string) value {
	pv, ok := p.(*value)
	if !ok || pv == nil {
		panic(rtErr("runtime error: invalid memory address or nil pointer dereference"))
	}
	return (*pv).(structure)[fieldIndex(recvElem(fr), name)]
}

func init() {
	// ---- event log access for harnesses ---------------------------------
	verifIntrinsics["verifEventCount"] = func(fr *frame, args []value) value { return len(fr.i.events) }
	verifIntrinsics["verifEventKind"] = func(fr *frame, args []value) value {
		k := args[0].(int)
		if k < 0 || k >= len(fr.i.events) {
			return ""
		}
		return fr.i.events[k].kind
	}
	verifIntrinsics["verifEventStr"] = func(fr *frame, args []value) value {
		k, j := args[0].(int), args[1].(int)
		if k < 0 || k >= len(fr.i.events) || j >= len(fr.i.events[k].args) {
			return ""
		}
		switch s := fr.i.events[k].args[j].(type) {
		case string, *symStr:
			return s
		}
		return ""
	}
	verifIntrinsics["verifEventsReset"] = func(fr *frame, args []value) value {
		fr.i.events = nil
		return nil
	}
	verifIntrinsics["verifCountEvents"] = func(fr *frame, args []value) value {
		n := 0
		for _, e := range fr.i.events {
			if e.kind == args[0].(string) {
				n++
			}
		}
		return n
	}

	// ---- net/http request parsing stubs -----------------------------------
	intrinsics["(*net/http.Request).BasicAuth"] = func(fr *frame, args []value) value {
		fr.i.event("BasicAuth")
		if _, ok := fr.i.ghost["BasicAuth.ok"]; !ok {
			return fallThrough // no ghost triple: net/http's own header parsing is run
		}
		return tuple{ghostOr(fr, "BasicAuth.user", ""), ghostOr(fr, "BasicAuth.pass", ""), ghostOr(fr, "BasicAuth.ok", false)}
	}
	intrinsics["(*net/http.Request).SetBasicAuth"] = func(fr *frame, args []value) value {
		if _, ok := fr.i.ghost["BasicAuth.ok"]; !ok {
			return fallThrough
		}
		return nil
	}
	intrinsics["(*net/http.Request).FormValue"] = func(fr *frame, args []value) value {
		key := concStr(fr, args[1], "FormValue key")
		fr.i.event("FormValue", key)
		return ghostOr(fr, "FormValue."+key, "")
	}
	intrinsics["(*net/http.Request).ParseForm"] = func(fr *frame, args []value) value {
		fr.i.event("ParseForm")
		return symErr(fr, "ParseForm")
	}
	intrinsics["(*net/http.Request).ParseMultipartForm"] = func(fr *frame, args []value) value {
		fr.i.event("ParseMultipartForm")
		return symErr(fr, "ParseMultipartForm")
	}
	intrinsics["(*net/http.Request).Referer"] = func(fr *frame, args []value) value {
		return ghostOr(fr, "Referer", "")
	}
	intrinsics["(*net/url.URL).Query"] = func(fr *frame, args []value) value {
		fr.i.event("URL.Query")
		if g, ok := fr.i.ghost["URL.Query"]; ok {
			return g
		}
		m := makeMap(types_String)
		// a concrete query string is parsed by net/url itself (a fresh map per call, as natively)
		if p, ok := args[0].(*value); ok && p != nil {
			if st, ok := (*p).(structure); ok {
				if raw, ok := st[fieldIndex(recvElem(fr), "RawQuery")].(string); ok {
					u := url.URL{RawQuery: raw}
					vals := u.Query()
					// deterministic order: first appearance in the query string
					for _, kv := range strings.FieldsFunc(raw, func(r rune) bool { return r == '&' || r == ';' }) {
						k := kv
						if i := strings.IndexByte(kv, '='); i >= 0 {
							k = kv[:i]
						}
						if uk, err := url.QueryUnescape(k); err == nil {
							k = uk
						}
						if vs, ok := vals[k]; ok && m.find(fr.ex(), k) == nil {
							sl := make([]value, len(vs))
							for i, v := range vs {
								sl[i] = v
							}
							m.insert(fr.ex(), k, sl)
						}
					}
				} else {
					fr.ex().unsupported("URL.Query of a symbolic query string without a ghost")
				}
			}
		}
		return m
	}
	intrinsics["net/http.Redirect"] = func(fr *frame, args []value) value {
		w := args[0].(iface)
		fr.i.event("Redirect", args[2], args[3])
		h := callMethod(fr.i, fr, w, "Header").(*omap)
		if h != nil {
			h.insert(fr.ex(), "Location", []value{args[2]})
		}
		callMethod(fr.i, fr, w, "WriteHeader", args[3])
		return nil
	}
	intrinsics["net/http.SetCookie"] = func(fr *frame, args []value) value {
		fr.i.event("SetCookie")
		return nil
	}

	// ---- files: boundary recorders ----------------------------------------
	intrinsics["net/http.FileServer"] = func(fr *frame, args []value) value {
		o := &hostObj{kind: "fileserver", aux: args[0]}
		return iface{t: hostIfaceT, v: o}
	}
	hostMethods["fileserver.ServeHTTP"] = func(fr *frame, o *hostObj, args []value) value {
		// contract: opens path.Clean("/"+r.URL.Path) through the configured FileSystem
		req := args[1].(*value)
		reqT := fr.i.prog.ImportedPackage("net/http").Type("Request").Type()
		u := (*req).(structure)[fieldIndex(reqT, "URL")].(*value)
		urlT := fr.i.prog.ImportedPackage("net/url").Type("URL").Type()
		p := (*u).(structure)[fieldIndex(urlT, "Path")]
		root := value("")
		if fs, ok := o.aux.(iface); ok {
			if fs.t != nil && fs.t.String() != "net/http.Dir" {
				// a FileSystem of the program's own: the file server calls its Open with the
				// cleaned, slash-rooted name; what Open does is the program's code and is run
				pkg := fr.i.prog.ImportedPackage("path")
				if pkg == nil || pkg.Func("Clean") == nil {
					fr.ex().unsupported("custom http.FileSystem: package path not loaded")
				}
				name := callSSA(fr.i, fr, 0, pkg.Func("Clean"), []value{mkStr(append(strBytes(fr.ex().ts, "/"), strBytes(fr.ex().ts, p)...))}, nil)
				fr.i.event("FileServer.custom", fs.t.String(), name)
				callMethod(fr.i, fr, fs, "Open", name)
				return nil
			}
			if s, ok := fs.v.(string); ok {
				root = s
			} else if s, ok := fs.v.(*symStr); ok {
				root = s
			} else {
				root = "<fs:" + fs.t.String() + ">"
			}
		}
		fr.i.event("FileServer", root, p)
		return nil
	}
	intrinsics["net/http.ServeFile"] = func(fr *frame, args []value) value {
		fr.i.event("ServeFile", args[2])
		return nil
	}
	intrinsics["net/http.ServeContent"] = func(fr *frame, args []value) value {
		fr.i.event("ServeContent", args[2])
		return nil
	}
	intrinsics["os.Open"] = func(fr *frame, args []value) value {
		fr.i.event("os.Open", args[0])
		return tuple{(*value)(nil), fr.i.mkError("verif: os.Open stub")}
	}
	intrinsics["os.ReadFile"] = func(fr *frame, args []value) value {
		fr.i.event("os.ReadFile", args[0])
		return tuple{[]value(nil), fr.i.mkError("verif: os.ReadFile stub")}
	}
	intrinsics["os.Stat"] = func(fr *frame, args []value) value {
		fr.i.event("os.Stat", args[0])
		return tuple{iface{}, fr.i.mkError("verif: os.Stat stub")}
	}

	// ---- codecs / validator: opaque ----------------------------------------
	intrinsics["encoding/json.NewDecoder"] = func(fr *frame, args []value) value {
		return &hostObj{kind: "jsondec", aux: args[0]}
	}
	intrinsics["(*encoding/json.Decoder).Decode"] = func(fr *frame, args []value) value {
		o := args[0].(*hostObj)
		fr.i.event("json.Decode", readerTag(fr, o.aux))
		return symErr(fr, "json.Decode")
	}
	// the XML decoder is a real struct (its exported configuration fields can be set by the
	// program); NewDecoder's own work is reduced to "strict mode on"; the reader is kept aside
	intrinsics["encoding/xml.NewDecoder"] = func(fr *frame, args []value) value {
		t := mustDeref(fr.fn.Signature.Results().At(0).Type())
		cell := zero(t)
		cell.(structure)[fieldIndex(t, "Strict")] = true
		p := &cell
		fr.i.decoderReaders[p] = args[0]
		return p
	}
	intrinsics["(*encoding/xml.Decoder).Decode"] = func(fr *frame, args []value) value {
		p, _ := args[0].(*value)
		if p == nil {
			panic(rtErr("runtime error: invalid memory address or nil pointer dereference"))
		}
		t := recvElem(fr)
		st := (*p).(structure)
		mode := "strict"
		if b, _ := st[fieldIndex(t, "Strict")].(bool); !b {
			mode = "lenient"
		}
		if m, _ := st[fieldIndex(t, "Entity")].(*omap); m != nil {
			mode += "+entities"
		}
		if sl, _ := st[fieldIndex(t, "AutoClose")].([]value); len(sl) > 0 {
			mode += "+autoclose"
		}
		fr.i.event("xml.Decode", readerTag(fr, fr.i.decoderReaders[p]), mode)
		return symErr(fr, "xml.Decode")
	}
	intrinsics["github.com/monoculum/formam.NewDecoder"] = func(fr *frame, args []value) value {
		cell := zero(mustDeref(fr.fn.Signature.Results().At(0).Type()))
		return &cell
	}
	intrinsics["(github.com/monoculum/formam.Decoder).Decode"] = func(fr *frame, args []value) value {
		tag := ""
		if m, ok := args[1].(*omap); ok && m != nil {
			if e := m.find(fr.ex(), "__source"); e != nil {
				if vs, ok := e.val.([]value); ok && len(vs) > 0 {
					if s, ok := vs[0].(string); ok {
						tag = s
					}
				}
			}
		}
		// what the decoder is given under the key "tags": count and values
		tags := ""
		if m, ok := args[1].(*omap); ok && m != nil {
			if e := m.find(fr.ex(), "tags"); e != nil {
				if vs, ok := e.val.([]value); ok {
					tags = fmt.Sprint(len(vs)) + ":"
					for i, v := range vs {
						if i > 0 {
							tags += "|"
						}
						if sv, ok := v.(string); ok {
							tags += sv
						} else {
							tags += "?"
						}
					}
				}
			}
		}
		fr.i.event("formam.Decode", tag, tags)
		return symErr(fr, "formam.Decode")
	}
	// gookit/validate is the boundary: rux's own stdValidator.Validate is
	// executed; whether the rules hold is an arbitrary (symbolic) outcome.
	runValidate := func(fr *frame) bool {
		fr.i.event("Validate")
		e := symErr(fr, "Validate")
		fr.i.validateFailed = e.(iface).t != nil
		return !fr.i.validateFailed
	}
	intrinsics["github.com/gookit/validate.New"] = func(fr *frame, args []value) value {
		fr.i.event("validate.New", objTag(args[0]))
		cell := zero(mustDeref(fr.fn.Signature.Results().At(0).Type()))
		return &cell
	}
	intrinsics["github.com/gookit/validate.Struct"] = intrinsics["github.com/gookit/validate.New"]
	intrinsics["(*github.com/gookit/validate.Validation).Validate"] = func(fr *frame, args []value) value {
		return runValidate(fr)
	}
	intrinsics["(*github.com/gookit/validate.Validation).IsOK"] = func(fr *frame, args []value) value {
		return !fr.i.validateFailed
	}
	intrinsics["(*github.com/gookit/validate.Validation).IsSuccess"] = intrinsics["(*github.com/gookit/validate.Validation).IsOK"]
	intrinsics["(*github.com/gookit/validate.Validation).IsFail"] = func(fr *frame, args []value) value {
		return fr.i.validateFailed
	}
	intrinsics["(github.com/gookit/validate.Errors).Empty"] = func(fr *frame, args []value) value {
		return !fr.i.validateFailed
	}
	valErr := func(fr *frame, args []value) value {
		if fr.i.validateFailed {
			return fr.i.mkError("verif: validation failed")
		}
		return iface{}
	}
	intrinsics["(github.com/gookit/validate.Errors).OneError"] = valErr
	intrinsics["(github.com/gookit/validate.Errors).ErrOrNil"] = valErr
	intrinsics["(*github.com/gookit/validate.Validation).ValidateErr"] = func(fr *frame, args []value) value {
		runValidate(fr)
		return valErr(fr, args)
	}
	// encoders write an uninterpreted rendering E(obj)
	encOut := func(fr *frame, kind string, w value, obj value) value {
		fr.i.event(kind+".Encode", objTag(obj))
		if e := symErr(fr, kind+".Encode"); e.(iface).t != nil {
			return e
		}
		s := "<" + kind + ":" + objTag(obj) + ">"
		body := make([]value, len(s))
		for i := 0; i < len(s); i++ {
			body[i] = s[i]
		}
		res := callMethod(fr.i, fr, w.(iface), "Write", body)
		if t, ok := res.(tuple); ok && len(t) == 2 {
			if e, ok := t[1].(iface); ok && e.t != nil {
				return e
			}
		}
		return iface{}
	}
	intrinsics["encoding/json.NewEncoder"] = func(fr *frame, args []value) value {
		return &hostObj{kind: "jsonenc", aux: args[0]}
	}
	intrinsics["(*encoding/json.Encoder).SetIndent"] = func(fr *frame, args []value) value { return nil }
	intrinsics["(*encoding/json.Encoder).SetEscapeHTML"] = func(fr *frame, args []value) value { return nil }
	intrinsics["(*encoding/json.Encoder).Encode"] = func(fr *frame, args []value) value {
		o := args[0].(*hostObj)
		return encOut(fr, "json", o.aux, args[1])
	}
	intrinsics["encoding/xml.NewEncoder"] = func(fr *frame, args []value) value {
		return &hostObj{kind: "xmlenc", aux: args[0]}
	}
	intrinsics["(*encoding/xml.Encoder).Indent"] = func(fr *frame, args []value) value { return nil }
	intrinsics["(*encoding/xml.Encoder).Encode"] = func(fr *frame, args []value) value {
		o := args[0].(*hostObj)
		return encOut(fr, "xml", o.aux, args[1])
	}
	intrinsics["encoding/json.Marshal"] = func(fr *frame, args []value) value {
		fr.i.event("json.Marshal", objTag(args[0]))
		if e := symErr(fr, "json.Marshal"); e.(iface).t != nil {
			return tuple{[]value(nil), e}
		}
		s := "<json:" + objTag(args[0]) + ">"
		body := make([]value, len(s))
		for i := 0; i < len(s); i++ {
			body[i] = s[i]
		}
		return tuple{body, iface{}}
	}

	// ---- context values ------------------------------------------------------
	intrinsics["context.WithValue"] = func(fr *frame, args []value) value {
		o := &hostObj{kind: "valuectx", aux: []value{args[0], args[1], args[2]}}
		return iface{t: hostIfaceT, v: o}
	}
	// context.WithCancel: a context whose Err() is nil until its cancel function ran
	// (Done channels and propagation to children are not modelled)
	intrinsics["context.WithCancel"] = func(fr *frame, args []value) value {
		o := &hostObj{kind: "cancelctx", aux: []value{args[0], false}}
		cancel := &hostFunc{f: func(fr *frame, _ []value) value {
			o.aux.([]value)[1] = true
			return nil
		}}
		return tuple{iface{t: hostIfaceT, v: o}, cancel}
	}
	hostMethods["cancelctx.Err"] = func(fr *frame, o *hostObj, args []value) value {
		a := o.aux.([]value)
		if a[1].(bool) {
			if pkg := fr.i.prog.ImportedPackage("context"); pkg != nil && pkg.Var("Canceled") != nil {
				return *(fr.get(pkg.Var("Canceled")).(*value))
			}
			return fr.i.mkError("context canceled")
		}
		parent := a[0].(iface)
		if parent.t == nil {
			return iface{}
		}
		if po, ok := parent.v.(*hostObj); ok {
			if _, has := hostMethods[po.kind+".Err"]; has {
				return callHostMethod(fr, &hostMethod{po, "Err"}, nil)
			}
			return iface{}
		}
		return callMethod(fr.i, fr, parent, "Err")
	}
	hostMethods["cancelctx.Value"] = func(fr *frame, o *hostObj, args []value) value {
		parent := o.aux.([]value)[0].(iface)
		if parent.t == nil {
			return iface{}
		}
		if po, ok := parent.v.(*hostObj); ok {
			return callHostMethod(fr, &hostMethod{po, "Value"}, args)
		}
		return callMethod(fr.i, fr, parent, "Value", args[0])
	}
	hostMethods["valuectx.Err"] = func(fr *frame, o *hostObj, args []value) value {
		parent := o.aux.([]value)[0].(iface)
		if parent.t == nil {
			return iface{}
		}
		if po, ok := parent.v.(*hostObj); ok {
			if _, has := hostMethods[po.kind+".Err"]; has {
				return callHostMethod(fr, &hostMethod{po, "Err"}, nil)
			}
			return iface{}
		}
		return callMethod(fr.i, fr, parent, "Err")
	}
	hostMethods["valuectx.Value"] = func(fr *frame, o *hostObj, args []value) value {
		a := o.aux.([]value)
		key := args[0].(iface)
		mine := a[1].(iface)
		if sameType(key.t, mine.t) && key.t != nil {
			eq := equalsV(fr.ex(), key.t, key.v, mine.v)
			if b, ok := eq.(bool); ok && b {
				return a[2]
			}
		}
		parent := a[0].(iface)
		if parent.t == nil {
			return iface{}
		}
		if po, ok := parent.v.(*hostObj); ok {
			return callHostMethod(fr, &hostMethod{po, "Value"}, args)
		}
		return callMethod(fr.i, fr, parent, "Value", args[0])
	}
	_ = fmt.Sprint
}

// hostIfaceT is the dynamic type tag of interface values holding host objects.
var hostIfaceT = types.NewNamed(types.NewTypeName(0, nil, "verifHostObject", nil), types.NewStruct(nil, nil), nil)

// objTag renders an encoder argument for the uninterpreted output E(obj).
func objTag(v value) string {
	if i, ok := v.(iface); ok {
		if i.t == nil {
			return "nil"
		}
		if s, ok := i.v.(string); ok {
			return "s=" + s
		}
		return i.t.String()
	}
	return fmt.Sprintf("%T", v)
}

// readerTag identifies the io.Reader handed to a decoder (ghost tag set by
// the harness on its body reader type).
func readerTag(fr *frame, r value) string {
	i, ok := r.(iface)
	if !ok || i.t == nil {
		return "nil"
	}
	return i.t.String()
}

// symUnescape percent-decodes a string with symbolic bytes (path mode: '+'
// stays '+').  Forks on every position that can be '%'; an invalid escape
// returns ok=false like url.PathUnescape's error.
func symUnescape(ex *Exec, bs []*Term, plusIsSpace bool) ([]*Term, bool) {
	ts := ex.ts
	isHex := func(b *Term) *Term {
		return ts.Or(byteRange(ts, b, '0', '9'), byteRange(ts, b, 'a', 'f'), byteRange(ts, b, 'A', 'F'))
	}
	hexVal := func(b *Term) *Term {
		return ts.Ite(byteRange(ts, b, '0', '9'), ts.Sub(b, ts.BV(8, '0')),
			ts.Ite(byteRange(ts, b, 'a', 'f'), ts.Sub(b, ts.BV(8, 'a'-10)), ts.Sub(b, ts.BV(8, 'A'-10))))
	}
	var out []*Term
	for i := 0; i < len(bs); i++ {
		if ex.branch(ts.Eq(bs[i], ts.BV(8, '%'))) {
			if i+2 >= len(bs) {
				return nil, false
			}
			if !ex.branch(ts.And(isHex(bs[i+1]), isHex(bs[i+2]))) {
				return nil, false
			}
			out = append(out, ts.Bin("bvor", ts.Bin("bvshl", hexVal(bs[i+1]), ts.BV(8, 4)), hexVal(bs[i+2])))
			i += 2
			continue
		}
		if plusIsSpace {
			out = append(out, ts.Ite(ts.Eq(bs[i], ts.BV(8, '+')), ts.BV(8, ' '), bs[i]))
		} else {
			out = append(out, bs[i])
		}
	}
	return out, true
}

func init() {
	unesc := func(plus bool, name string) externalFn {
		return func(fr *frame, args []value) value {
			if s, ok := args[0].(string); ok {
				var r string
				var err error
				if plus {
					r, err = url.QueryUnescape(s)
				} else {
					r, err = url.PathUnescape(s)
				}
				if err != nil {
					return tuple{"", fr.i.mkError(err.Error())}
				}
				return tuple{r, iface{}}
			}
			out, ok := symUnescape(fr.ex(), strBytes(fr.ex().ts, args[0]), plus)
			if !ok {
				return tuple{"", fr.i.mkError("invalid URL escape")}
			}
			return tuple{mkStr(out), iface{}}
		}
	}
	intrinsics["net/url.PathUnescape"] = unesc(false, "PathUnescape")
	intrinsics["net/url.QueryUnescape"] = unesc(true, "QueryUnescape")
}
