package main

// Regular-expression intrinsics.  Patterns are always concrete (they come
// from registration); they are compiled natively.  Matching a symbolic
// subject (concrete length, symbolic bytes) enumerates the parses of the
// pattern's regexp/syntax tree in backtracking priority order — which is
// Go's leftmost-first submatch semantics — and forks over them: parse k is
// taken under  cond_k ∧ ¬cond_1 ∧ … ∧ ¬cond_{k-1},  "no match" under the
// negation of all.  Positions are concrete, so ^ $ and literal alignment are
// decided during enumeration; byte conditions are formulas.

import (
	"fmt"
	"regexp"
	"regexp/syntax"
	"unicode/utf8"
)

type reParse struct {
	cond *Term
	caps []int
	end  int
}

type reM struct {
	ex     *Exec
	ts     *TermStore
	bs     []*Term
	ncap   int
	parses []reParse
	budget int
}

type reSt struct {
	cond []*Term
	caps []int
}

func (s reSt) with(c *Term) reSt {
	if c.IsTrue() {
		return s
	}
	nc := make([]*Term, len(s.cond)+1)
	copy(nc, s.cond)
	nc[len(s.cond)] = c
	return reSt{nc, s.caps}
}

func (s reSt) setCap(k, v int) reSt {
	nc := make([]int, len(s.caps))
	copy(nc, s.caps)
	nc[k] = v
	return reSt{s.cond, nc}
}

// classCond: byte-level condition for "one character of this class", and
// whether the class accepts every rune >= 0x80 (hi), none, or some (partial).
func classCond(ts *TermStore, b *Term, ranges []rune) (c *Term, hi bool, partial bool) {
	var alts []*Term
	for i := 0; i+1 < len(ranges); i += 2 {
		lo, up := ranges[i], ranges[i+1]
		if lo < 0x80 {
			u := up
			if u > 0x7f {
				u = 0x7f
			}
			if lo == u {
				alts = append(alts, ts.Eq(b, ts.BV(8, uint64(lo))))
			} else {
				alts = append(alts, byteRange(ts, b, byte(lo), byte(u)))
			}
		}
		if up >= 0x80 {
			l := lo
			if l < 0x80 {
				l = 0x80
			}
			if l <= 0x80 && up >= 0x10FFFF {
				hi = true
			} else {
				partial = true
			}
		}
	}
	if hi {
		alts = append(alts, ts.Ule(ts.BV(8, 0x80), b))
	}
	return ts.Or(alts...), hi, partial
}

func nodeRanges(n *syntax.Regexp) []rune {
	switch n.Op {
	case syntax.OpCharClass:
		return n.Rune
	case syntax.OpAnyCharNotNL:
		return []rune{0, '\n' - 1, '\n' + 1, 0x10FFFF}
	case syntax.OpAnyChar:
		return []rune{0, 0x10FFFF}
	}
	return nil
}

// unsafeHigh reports whether the pattern contains a character matcher that
// accepts non-ASCII runes outside a star/plus (there rune count != byte
// count, so the byte-level encoding is only exact for ASCII subjects), or a
// class that accepts only some non-ASCII runes.
func unsafeHigh(n *syntax.Regexp, underLoop bool) (unsafe bool, unsupported bool) {
	switch n.Op {
	case syntax.OpCharClass, syntax.OpAnyCharNotNL, syntax.OpAnyChar:
		ts := NewTermStore()
		_, hi, partial := classCond(ts, ts.Var("b", 8), nodeRanges(n))
		if partial {
			return false, true
		}
		return hi && !underLoop, false
	case syntax.OpLiteral:
		for _, r := range n.Rune {
			if r >= 0x80 && n.Flags&syntax.FoldCase != 0 {
				return false, true
			}
		}
		return false, false
	case syntax.OpStar, syntax.OpPlus:
		sub := n.Sub[0]
		single := sub.Op == syntax.OpCharClass || sub.Op == syntax.OpAnyCharNotNL || sub.Op == syntax.OpAnyChar
		return unsafeHigh(sub, single)
	case syntax.OpWordBoundary, syntax.OpNoWordBoundary, syntax.OpBeginLine, syntax.OpEndLine:
		return false, true
	}
	for _, s := range n.Sub {
		u, x := unsafeHigh(s, false)
		if x {
			return false, true
		}
		if u {
			unsafe = true
		}
	}
	return unsafe, false
}

func (m *reM) match(n *syntax.Regexp, i int, st reSt, k func(int, reSt)) {
	m.budget--
	if m.budget < 0 {
		m.ex.outOfBound("regexp parse enumeration budget")
	}
	ts := m.ts
	N := len(m.bs)
	switch n.Op {
	case syntax.OpEmptyMatch:
		k(i, st)
	case syntax.OpNoMatch:
	case syntax.OpLiteral:
		var lit []byte
		for _, r := range n.Rune {
			lit = utf8.AppendRune(lit, r)
		}
		if i+len(lit) > N {
			return
		}
		cs := make([]*Term, 0, len(lit))
		for j, c := range lit {
			var e *Term
			if n.Flags&syntax.FoldCase != 0 && ((c >= 'a' && c <= 'z') || (c >= 'A' && c <= 'Z')) {
				e = ts.Or(ts.Eq(m.bs[i+j], ts.BV(8, uint64(c|0x20))), ts.Eq(m.bs[i+j], ts.BV(8, uint64(c&^0x20))))
			} else {
				e = ts.Eq(m.bs[i+j], ts.BV(8, uint64(c)))
			}
			if e.IsFalse() {
				return
			}
			cs = append(cs, e)
		}
		k(i+len(lit), st.with(ts.And(cs...)))
	case syntax.OpCharClass, syntax.OpAnyCharNotNL, syntax.OpAnyChar:
		if i >= N {
			return
		}
		c, _, _ := classCond(ts, m.bs[i], nodeRanges(n))
		if c.IsFalse() {
			return
		}
		k(i+1, st.with(c))
	case syntax.OpBeginText:
		if i == 0 {
			k(i, st)
		}
	case syntax.OpEndText:
		if i == N {
			k(i, st)
		}
	case syntax.OpCapture:
		st2 := st.setCap(2*n.Cap, i)
		m.match(n.Sub[0], i, st2, func(j int, st3 reSt) {
			k(j, st3.setCap(2*n.Cap+1, j))
		})
	case syntax.OpConcat:
		var seq func(idx, pos int, s reSt)
		seq = func(idx, pos int, s reSt) {
			if idx == len(n.Sub) {
				k(pos, s)
				return
			}
			m.match(n.Sub[idx], pos, s, func(j int, s2 reSt) { seq(idx+1, j, s2) })
		}
		seq(0, i, st)
	case syntax.OpAlternate:
		for _, sub := range n.Sub {
			m.match(sub, i, st, k)
		}
	case syntax.OpQuest:
		if n.Flags&syntax.NonGreedy != 0 {
			k(i, st)
			m.match(n.Sub[0], i, st, k)
		} else {
			m.match(n.Sub[0], i, st, k)
			k(i, st)
		}
	case syntax.OpStar, syntax.OpPlus, syntax.OpRepeat:
		min, max := 0, -1
		switch n.Op {
		case syntax.OpPlus:
			min = 1
		case syntax.OpRepeat:
			min, max = n.Min, n.Max
		}
		lazy := n.Flags&syntax.NonGreedy != 0
		var rep func(cnt, pos int, s reSt)
		rep = func(cnt, pos int, s reSt) {
			more := func() {
				if max >= 0 && cnt >= max {
					return
				}
				m.match(n.Sub[0], pos, s, func(j int, s2 reSt) {
					if j > pos || cnt < min {
						if j == pos && cnt >= min {
							return
						}
						rep(cnt+1, j, s2)
					}
				})
			}
			stop := func() {
				if cnt >= min {
					k(pos, s)
				}
			}
			if lazy {
				stop()
				more()
			} else {
				more()
				stop()
			}
		}
		rep(0, i, st)
	default:
		m.ex.unsupported("regexp operator " + n.Op.String())
	}
}

// reEnumerate lists the parses of re anchored at position start of bs, in
// priority order.
func reEnumerate(ex *Exec, re *regexp.Regexp, bs []*Term, start int) ([]reParse, int) {
	tree, err := syntax.Parse(re.String(), syntax.Perl)
	if err != nil {
		ex.unsupported("regexp/syntax cannot re-parse " + re.String())
	}
	unsafe, unsup := unsafeHigh(tree, false)
	if unsup {
		ex.unsupported("regexp feature outside the encoding: " + re.String())
	}
	if unsafe {
		requireASCII(ex, bs, "regexp with a non-looped non-ASCII-capable class")
	}
	ncap := re.NumSubexp() + 1
	m := &reM{ex: ex, ts: ex.ts, bs: bs, ncap: ncap, budget: 200000}
	caps := make([]int, 2*ncap)
	for i := range caps {
		caps[i] = -1
	}
	m.match(tree, start, reSt{nil, caps}, func(j int, st reSt) {
		c := ex.ts.And(st.cond...)
		if c.IsFalse() {
			return
		}
		cp := st.setCap(0, start).setCap(1, j)
		m.parses = append(m.parses, reParse{cond: c, caps: cp.caps, end: j})
		if len(m.parses) > 3000 {
			ex.outOfBound("regexp: more than 3000 parses")
		}
	})
	return m.parses, ncap
}

func anchoredAtStart(re *regexp.Regexp) bool {
	tree, err := syntax.Parse(re.String(), syntax.Perl)
	if err != nil {
		return false
	}
	for tree.Op == syntax.OpConcat && len(tree.Sub) > 0 {
		tree = tree.Sub[0]
	}
	return tree.Op == syntax.OpBeginText
}

// anchoredAtEnd: the pattern's last top-level element is \z / non-multiline $.
// Every match of such a pattern ends at the end of the text, so FindAll
// (which drops an empty match abutting the preceding match) yields at most
// one match: the leftmost one.
func anchoredAtEnd(re *regexp.Regexp) bool {
	tree, err := syntax.Parse(re.String(), syntax.Perl)
	if err != nil {
		return false
	}
	for tree.Op == syntax.OpConcat && len(tree.Sub) > 0 {
		tree = tree.Sub[len(tree.Sub)-1]
	}
	return tree.Op == syntax.OpEndText
}

// reChoose forks over the parses (exact leftmost-first choice); returns nil
// for "no match".
func reChoose(ex *Exec, parses []reParse) *reParse {
	ts := ex.ts
	if len(parses) == 0 {
		return nil
	}
	conds := make([]*Term, 0, len(parses)+1)
	var nots []*Term
	for _, p := range parses {
		conds = append(conds, ts.And(append([]*Term{p.cond}, nots...)...))
		nots = append(nots, ts.Not(p.cond))
	}
	conds = append(conds, ts.And(nots...))
	k := ex.choose(conds)
	if k == len(parses) {
		return nil
	}
	return &parses[k]
}

func submatchStrings(bs []*Term, p *reParse, ncap int) []value {
	out := make([]value, ncap)
	for g := 0; g < ncap; g++ {
		a, b := p.caps[2*g], p.caps[2*g+1]
		if a < 0 || b < 0 {
			out[g] = ""
		} else {
			out[g] = mkStr(bs[a:b])
		}
	}
	return out
}

func hostRegexp(v value) *regexp.Regexp {
	h, ok := v.(*hostObj)
	if !ok || h == nil || h.kind != "regexp" {
		panic(rtErr("runtime error: invalid memory address or nil pointer dereference (nil *regexp.Regexp)"))
	}
	return h.obj.(*regexp.Regexp)
}

func init() {
	intrinsics["regexp.MustCompile"] = func(fr *frame, args []value) value {
		s, ok := args[0].(string)
		if !ok {
			fr.ex().unsupported("regexp.MustCompile on a symbolic pattern")
		}
		re, err := regexp.Compile(s)
		if err != nil {
			panic(targetPanic{iface{types_String, "regexp: Compile(" + quoteGo(s) + "): " + err.Error()}})
		}
		return &hostObj{kind: "regexp", obj: re}
	}
	intrinsics["regexp.Compile"] = func(fr *frame, args []value) value {
		s, ok := args[0].(string)
		if !ok {
			fr.ex().unsupported("regexp.Compile on a symbolic pattern")
		}
		re, err := regexp.Compile(s)
		if err != nil {
			return tuple{(*value)(nil), fr.i.mkError(err.Error())}
		}
		return tuple{&hostObj{kind: "regexp", obj: re}, iface{}}
	}
	intrinsics["regexp.QuoteMeta"] = func(fr *frame, args []value) value {
		s, ok := args[0].(string)
		if !ok {
			fr.ex().unsupported("regexp.QuoteMeta on a symbolic string")
		}
		return regexp.QuoteMeta(s)
	}
	intrinsics["(*regexp.Regexp).String"] = func(fr *frame, args []value) value {
		return hostRegexp(args[0]).String()
	}
	intrinsics["(*regexp.Regexp).NumSubexp"] = func(fr *frame, args []value) value {
		return hostRegexp(args[0]).NumSubexp()
	}
	// replacement on concrete subjects (registration-time use): native, with the target's callback
	intrinsics["(*regexp.Regexp).ReplaceAllStringFunc"] = func(fr *frame, args []value) value {
		re := hostRegexp(args[0])
		s, ok := args[1].(string)
		if !ok {
			fr.ex().unsupported("(*regexp.Regexp).ReplaceAllStringFunc on a symbolic subject")
		}
		return re.ReplaceAllStringFunc(s, func(m string) string {
			r, ok := call(fr.i, fr, 0, args[2], []value{m}).(string)
			if !ok {
				fr.ex().unsupported("ReplaceAllStringFunc: the callback returned a symbolic string")
			}
			return r
		})
	}
	intrinsics["(*regexp.Regexp).ReplaceAllString"] = func(fr *frame, args []value) value {
		re := hostRegexp(args[0])
		s, ok1 := args[1].(string)
		repl, ok2 := args[2].(string)
		if !ok1 || !ok2 {
			fr.ex().unsupported("(*regexp.Regexp).ReplaceAllString on symbolic strings")
		}
		return re.ReplaceAllString(s, repl)
	}
	intrinsics["(*regexp.Regexp).ReplaceAllLiteralString"] = func(fr *frame, args []value) value {
		re := hostRegexp(args[0])
		s, ok1 := args[1].(string)
		repl, ok2 := args[2].(string)
		if !ok1 || !ok2 {
			fr.ex().unsupported("(*regexp.Regexp).ReplaceAllLiteralString on symbolic strings")
		}
		return re.ReplaceAllLiteralString(s, repl)
	}
	intrinsics["(*regexp.Regexp).FindAllString"] = func(fr *frame, args []value) value {
		re := hostRegexp(args[0])
		s, ok := args[1].(string)
		if !ok {
			fr.ex().unsupported("(*regexp.Regexp).FindAllString on a symbolic subject")
		}
		n := int(fr.concInt(args[2], nil))
		res := re.FindAllString(s, n)
		if res == nil {
			return []value(nil)
		}
		out := make([]value, len(res))
		for i, r := range res {
			out[i] = r
		}
		return out
	}
	intrinsics["(*regexp.Regexp).MatchString"] = func(fr *frame, args []value) value {
		re := hostRegexp(args[0])
		if s, ok := args[1].(string); ok {
			return re.MatchString(s)
		}
		ex := fr.ex()
		bs := strBytes(ex.ts, args[1])
		var alts []*Term
		starts := len(bs)
		if anchoredAtStart(re) {
			starts = 0
		}
		for st := 0; st <= starts; st++ {
			ps, _ := reEnumerate(ex, re, bs, st)
			for _, p := range ps {
				alts = append(alts, p.cond)
			}
		}
		return fromBoolTerm(ex.ts.Or(alts...))
	}
	findSub := func(fr *frame, args []value, all bool) value {
		re := hostRegexp(args[0])
		if s, ok := args[1].(string); ok {
			var res [][]string
			if all {
				res = re.FindAllStringSubmatch(s, int(fr.concInt(args[2], nil)))
			} else if r := re.FindStringSubmatch(s); r != nil {
				res = [][]string{r}
			}
			conv := func(r []string) []value {
				o := make([]value, len(r))
				for i, x := range r {
					o[i] = x
				}
				return o
			}
			if !all {
				if res == nil {
					return []value(nil)
				}
				return conv(res[0])
			}
			if res == nil {
				return []value(nil)
			}
			out := make([]value, len(res))
			for i, r := range res {
				out[i] = conv(r)
			}
			return out
		}
		ex := fr.ex()
		bs := strBytes(ex.ts, args[1])
		if all && ((!anchoredAtStart(re) && !anchoredAtEnd(re)) || len(bs) == 0) {
			ex.unsupported("FindAllStringSubmatch of an unanchored pattern on a symbolic subject")
		}
		starts := len(bs)
		if anchoredAtStart(re) {
			starts = 0
		}
		var parses []reParse
		ncap := re.NumSubexp() + 1
		for st := 0; st <= starts; st++ {
			ps, _ := reEnumerate(ex, re, bs, st)
			parses = append(parses, ps...)
		}
		p := reChoose(ex, parses)
		if p == nil {
			return []value(nil)
		}
		sm := submatchStrings(bs, p, ncap)
		if all {
			return []value{sm}
		}
		return sm
	}
	// index-returning variants: the same parse enumeration, positions instead of substrings
	findIdx := func(fr *frame, args []value, sub bool) value {
		re := hostRegexp(args[0])
		conv := func(r []int) value {
			if r == nil {
				return []value(nil)
			}
			o := make([]value, len(r))
			for i, x := range r {
				o[i] = x
			}
			return o
		}
		if s, ok := args[1].(string); ok {
			if sub {
				return conv(re.FindStringSubmatchIndex(s))
			}
			return conv(re.FindStringIndex(s))
		}
		ex := fr.ex()
		bs := strBytes(ex.ts, args[1])
		starts := len(bs)
		if anchoredAtStart(re) {
			starts = 0
		}
		var parses []reParse
		for st := 0; st <= starts; st++ {
			ps, _ := reEnumerate(ex, re, bs, st)
			parses = append(parses, ps...)
		}
		p := reChoose(ex, parses)
		if p == nil {
			return []value(nil)
		}
		if sub {
			return conv(p.caps)
		}
		return conv(p.caps[:2])
	}
	intrinsics["(*regexp.Regexp).FindStringSubmatchIndex"] = func(fr *frame, args []value) value { return findIdx(fr, args, true) }
	intrinsics["(*regexp.Regexp).FindStringIndex"] = func(fr *frame, args []value) value { return findIdx(fr, args, false) }
	intrinsics["(*regexp.Regexp).FindString"] = func(fr *frame, args []value) value {
		r := findIdx(fr, args, false).([]value)
		if r == nil {
			return ""
		}
		return mkStr(strBytes(fr.ex().ts, args[1])[r[0].(int):r[1].(int)])
	}
	intrinsics["(*regexp.Regexp).FindAllStringSubmatch"] = func(fr *frame, args []value) value { return findSub(fr, args, true) }
	intrinsics["(*regexp.Regexp).FindStringSubmatch"] = func(fr *frame, args []value) value { return findSub(fr, args, false) }
	_ = fmt.Sprint
}
