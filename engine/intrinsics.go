package main

// Intrinsic table: harness primitives (verif*), environment stubs
// (sync, net/http boundary, fmt, logging).  Every entry is part of the
// trusted base and is listed in the evidence when used.

import (
	"fmt"
	"go/types"
	"net/http"
	"net/textproto"
	"net/url"
	"strconv"
	"strings"

	"golang.org/x/tools/go/ssa"
)

var intrinsics = map[string]externalFn{}
var verifIntrinsics = map[string]externalFn{}

var types_String = types.Typ[types.String]


func quoteGo(s string) string {
	if strconv.CanBackquote(s) {
		return "`" + s + "`"
	}
	return strconv.Quote(s)
}

type poolState struct {
	free []value
}

func concStr(fr *frame, v value, what string) string {
	s, ok := v.(string)
	if !ok {
		fr.ex().unsupported(what + ": symbolic string where a concrete one is needed")
	}
	return s
}

func (i *interpreter) mkError(msg string) value {
	pkg := i.prog.ImportedPackage("errors")
	if pkg == nil {
		panic(engineErr{"errors package not loaded"})
	}
	t := pkg.Type("errorString").Type()
	var cell value = structure{msg}
	return iface{t: types.NewPointer(t), v: &cell}
}

// fieldIndex finds a struct field by name.
func fieldIndex(t types.Type, name string) int {
	st := t.Underlying().(*types.Struct)
	for k := 0; k < st.NumFields(); k++ {
		if st.Field(k).Name() == name {
			return k
		}
	}
	panic(engineErr{"no field " + name + " in " + t.String()})
}

func recvElem(fr *frame) types.Type {
	return mustDeref(fr.fn.Signature.Recv().Type())
}

// goValue converts a target value to a host value for fmt (concrete only).
func goValue(v value) (interface{}, bool) {
	switch v := v.(type) {
	case iface:
		if v.t == nil {
			return nil, true
		}
		return goValue(v.v)
	case bool, int, int8, int16, int32, int64, uint, uint8, uint16, uint32, uint64, uintptr, float32, float64, string:
		return v, true
	case []value:
		out := make([]interface{}, len(v))
		for i, e := range v {
			g, ok := goValue(e)
			if !ok {
				return nil, false
			}
			out[i] = g
		}
		return out, true
	case *value:
		if v == nil {
			return nil, true
		}
		return fmt.Sprintf("%p", v), true
	}
	return nil, false
}

func sprintfLike(format string, args []value) string {
	gs := make([]interface{}, len(args))
	for i, a := range args {
		g, ok := goValue(a)
		if !ok {
			return format
		}
		gs[i] = g
	}
	return fmt.Sprintf(format, gs...)
}

// symSprintf: Sprintf with a symbolic format string.  Without any '%' (and
// without operands) the result is the format itself; a format that contains
// '%' is made concrete byte by byte (each choice is a path) and formatted
// natively - an exact answer for that instance.
func symSprintf(fr *frame, f *symStr, args []value) value {
	ex := fr.ex()
	ts := ex.ts
	bs := strBytes(ts, f)
	var pct []*Term
	for _, b := range bs {
		pct = append(pct, ts.Eq(b, ts.BV(8, '%')))
	}
	if !ex.branch(ts.Or(pct...)) {
		if len(args) > 0 {
			ex.unsupported("Sprintf: symbolic format without verbs but with operands")
		}
		return f
	}
	// (instances: every byte is '%', 'd' or 'x' - enough to tell "formatted" from "copied";
	// other formats that contain '%' are cut, which the statistics record)
	raw := make([]byte, len(bs))
	for i, b := range bs {
		alts := []byte{'%', 'd', 'x'}
		conds := make([]*Term, len(alts))
		for k, a := range alts {
			conds[k] = ts.Eq(b, ts.BV(8, uint64(a)))
		}
		k := ex.choose(conds)
		ex.assume(conds[k])
		raw[i] = alts[k]
	}
	ex.stats.Covers["Sprintf: symbolic format with '%' explored over the letters % d x only"]++
	return sprintfLike(string(raw), args)
}

func headerKey(fr *frame, v value) string {
	return textproto.CanonicalMIMEHeaderKey(concStr(fr, v, "http.Header key"))
}

func writerIface(v value) iface { return v.(iface) }

// httpError implements net/http.Error on the target's ResponseWriter.
func httpError(fr *frame, w iface, msg value, code value) {
	h := callMethod(fr.i, fr, w, "Header").(*omap)
	if h != nil {
		h.delete(fr.ex(), "Content-Length")
		h.insert(fr.ex(), "Content-Type", []value{"text/plain; charset=utf-8"})
		h.insert(fr.ex(), "X-Content-Type-Options", []value{"nosniff"})
	}
	callMethod(fr.i, fr, w, "WriteHeader", code)
	bs := strBytes(fr.ex().ts, msg)
	body := make([]value, 0, len(bs)+1)
	for _, b := range bs {
		body = append(body, termByte(b))
	}
	body = append(body, uint8('\n'))
	callMethod(fr.i, fr, w, "Write", body)
}

func init() {
	// ---- harness primitives ------------------------------------------
	input := func(fr *frame, kind, label string, w int) value {
		ex := fr.ex()
		if ex.concrete {
			rv := ex.nextVec(kind, label)
			return rv.Int
		}
		t := ex.fresh(label, w)
		ex.inputs = append(ex.inputs, &inputRec{Kind: kind, Label: label, terms: []*Term{t}})
		return t
	}
	verifIntrinsics["verifByte"] = func(fr *frame, args []value) value {
		r := input(fr, "byte", args[0].(string), 8)
		if k, ok := r.(int64); ok {
			return uint8(k)
		}
		return r
	}
	verifIntrinsics["verifBool"] = func(fr *frame, args []value) value {
		r := input(fr, "bool", args[0].(string), 0)
		if k, ok := r.(int64); ok {
			return k != 0
		}
		return r
	}
	verifIntrinsics["verifInt"] = func(fr *frame, args []value) value {
		r := input(fr, "int", args[0].(string), 64)
		if k, ok := r.(int64); ok {
			return int(k)
		}
		return r
	}
	verifIntrinsics["verifInt8"] = func(fr *frame, args []value) value {
		r := input(fr, "int8", args[0].(string), 8)
		if k, ok := r.(int64); ok {
			return int8(k)
		}
		return r
	}
	verifIntrinsics["verifUint16"] = func(fr *frame, args []value) value {
		r := input(fr, "uint16", args[0].(string), 16)
		if k, ok := r.(int64); ok {
			return uint16(k)
		}
		return r
	}
	forked := func(fr *frame, kind, label string, lo, hi int) value {
		ex := fr.ex()
		if ex.concrete {
			rv := ex.nextVec(kind, label)
			return int(rv.Int)
		}
		n := hi - lo + 1
		if n <= 0 {
			panic(pathEnd{"empty range " + label})
		}
		conds := make([]*Term, n)
		for k := range conds {
			conds[k] = ex.ts.Bool(true)
		}
		k := 0
		if n > 1 {
			k = ex.chooseFree(n)
		}
		ex.inputs = append(ex.inputs, &inputRec{Kind: kind, Label: label, conc: int64(lo + k)})
		return lo + k
	}
	verifIntrinsics["verifLen"] = func(fr *frame, args []value) value {
		return forked(fr, "len", args[0].(string), args[1].(int), args[2].(int))
	}
	verifIntrinsics["verifChoice"] = func(fr *frame, args []value) value {
		return forked(fr, "choice", args[0].(string), 0, args[1].(int)-1)
	}
	verifIntrinsics["verifString"] = func(fr *frame, args []value) value {
		ex := fr.ex()
		label := args[0].(string)
		n := int(fr.concInt(args[1], nil))
		if ex.concrete {
			rv := ex.nextVec("string", label)
			b := make([]byte, len(rv.Bytes))
			for i, x := range rv.Bytes {
				b[i] = byte(x)
			}
			return string(b)
		}
		bs := make([]*Term, n)
		for i := range bs {
			bs[i] = ex.fresh(fmt.Sprintf("%s_%d", label, i), 8)
		}
		ex.inputs = append(ex.inputs, &inputRec{Kind: "string", Label: label, terms: bs, N: n})
		return mkStr(bs)
	}
	verifIntrinsics["verifAssume"] = func(fr *frame, args []value) value {
		ex := fr.ex()
		c := toBoolTerm(ex.ts, args[0])
		if c.IsFalse() {
			ex.stats.PathEndsAssm++
			panic(pathEnd{"assume false"})
		}
		if !c.IsTrue() {
			if !ex.feasible(c, false) {
				ex.stats.PathEndsAssm++
				panic(pathEnd{"assume infeasible"})
			}
			ex.assume(c)
		}
		return nil
	}
	verifIntrinsics["verifAssert"] = func(fr *frame, args []value) value {
		ex := fr.ex()
		ex.curPos = callerWhere(fr)
		ex.assertObl(toBoolTerm(ex.ts, args[0]), args[1].(string))
		return nil
	}
	verifIntrinsics["verifCover"] = func(fr *frame, args []value) value {
		fr.ex().stats.Covers[args[0].(string)]++
		fr.ex().coverSeq = append(fr.ex().coverSeq, args[0].(string))
		return nil
	}
	verifIntrinsics["verifParam"] = func(fr *frame, args []value) value {
		return fr.ex().params[args[0].(string)]
	}
	verifIntrinsics["verifCfg"] = func(fr *frame, args []value) value { return fr.ex().cfg }
	verifIntrinsics["verifAnd"] = func(fr *frame, args []value) value {
		ts := fr.ex().ts
		return fromBoolTerm(ts.And(toBoolTerm(ts, args[0]), toBoolTerm(ts, args[1])))
	}
	verifIntrinsics["verifOr"] = func(fr *frame, args []value) value {
		ts := fr.ex().ts
		return fromBoolTerm(ts.Or(toBoolTerm(ts, args[0]), toBoolTerm(ts, args[1])))
	}
	verifIntrinsics["verifNot"] = func(fr *frame, args []value) value {
		ts := fr.ex().ts
		return fromBoolTerm(ts.Not(toBoolTerm(ts, args[0])))
	}
	verifIntrinsics["verifImplies"] = func(fr *frame, args []value) value {
		ts := fr.ex().ts
		return fromBoolTerm(ts.Implies(toBoolTerm(ts, args[0]), toBoolTerm(ts, args[1])))
	}
	verifIntrinsics["verifIff"] = func(fr *frame, args []value) value {
		ts := fr.ex().ts
		return fromBoolTerm(ts.Eq(toBoolTerm(ts, args[0]), toBoolTerm(ts, args[1])))
	}
	verifIntrinsics["verifSymbolic"] = func(fr *frame, args []value) value {
		fr.ex().modeSplit = true
		return true
	}
	verifIntrinsics["verifMapOrder"] = func(fr *frame, args []value) value {
		fr.ex().mapOrder = args[0].(int)
		return nil
	}
	verifIntrinsics["verifPoolMode"] = func(fr *frame, args []value) value {
		fr.ex().poolMode = args[0].(int)
		return nil
	}
	verifIntrinsics["verifObserve"] = func(fr *frame, args []value) value {
		ex := fr.ex()
		v := args[1]
		if i, ok := v.(iface); ok {
			v = i.v
		}
		ex.observe(args[0].(string), v)
		return nil
	}
	verifIntrinsics["verifSetGhost"] = func(fr *frame, args []value) value {
		v := args[1]
		if i, ok := v.(iface); ok {
			v = i.v
		}
		fr.i.ghost[args[0].(string)] = v
		return nil
	}

	// ---- logging / formatting: empty bodies ---------------------------
	nop := func(fr *frame, args []value) value { return nil }
	for _, n := range []string{
		"github.com/gookit/rux.debugPrintRoute", "github.com/gookit/rux.debugPrint", "github.com/gookit/rux.debugPrintError",
		"fmt.Println", "fmt.Printf", "fmt.Print", "log.Printf", "log.Println", "log.Print",
		"github.com/gookit/color.Printf", "github.com/gookit/color.Println", "github.com/gookit/color.Print",
	} {
		intrinsics[n] = nop
	}
	// the name of a function value: one name per piece of code (function,
	// function literal, bound method), as runtime.FuncForPC gives it up to the
	// compiler's spelling; two closures of one literal share their name
	intrinsics["github.com/gookit/goutil.FuncName"] = func(fr *frame, args []value) value {
		v := args[0]
		if a, ok := v.(iface); ok {
			v = a.v
		}
		switch f := v.(type) {
		case *ssa.Function:
			return f.String()
		case *closure:
			return f.Fn.String()
		case *boundMethod:
			return f.fn.String() + "-fm"
		}
		return "func"
	}
	intrinsics["github.com/gookit/goutil.Panicf"] = func(fr *frame, args []value) value {
		msg := sprintfLike(concStr(fr, args[0], "Panicf format"), args[1].([]value))
		panic(targetPanic{iface{types_String, msg}})
	}
	intrinsics["github.com/gookit/goutil.String"] = func(fr *frame, args []value) value {
		a := args[0].(iface)
		if a.t == nil {
			return ""
		}
		switch v := a.v.(type) {
		case string, *symStr:
			return v
		case bool:
			return strconv.FormatBool(v)
		case int, int8, int16, int32, int64, uint, uint8, uint16, uint32, uint64:
			return fmt.Sprint(v)
		}
		fr.ex().unsupported("goutil.String of " + a.t.String())
		return nil
	}
	intrinsics["fmt.Sprintf"] = func(fr *frame, args []value) value {
		if sf, ok := args[0].(*symStr); ok {
			return symSprintf(fr, sf, args[1].([]value))
		}
		return sprintfLike(concStr(fr, args[0], "Sprintf format"), args[1].([]value))
	}
	intrinsics["fmt.Sprint"] = func(fr *frame, args []value) value {
		var sb strings.Builder
		for _, a := range args[0].([]value) {
			g, ok := goValue(a)
			if !ok {
				sb.WriteString("?")
				continue
			}
			sb.WriteString(fmt.Sprint(g))
		}
		return sb.String()
	}
	intrinsics["fmt.Errorf"] = func(fr *frame, args []value) value {
		return fr.i.mkError(sprintfLike(concStr(fr, args[0], "Errorf format"), args[1].([]value)))
	}
	fprint := func(fr *frame, w iface, s string) value {
		body := make([]value, len(s))
		for i := 0; i < len(s); i++ {
			body[i] = s[i]
		}
		return callMethod(fr.i, fr, w, "Write", body)
	}
	intrinsics["fmt.Fprintf"] = func(fr *frame, args []value) value {
		return fprint(fr, args[0].(iface), sprintfLike(concStr(fr, args[1], "Fprintf format"), args[2].([]value)))
	}
	intrinsics["fmt.Fprint"] = func(fr *frame, args []value) value {
		return fprint(fr, args[0].(iface), sprintfLike(strings.Repeat("%v", len(args[1].([]value))), args[1].([]value)))
	}
	intrinsics["fmt.Fprintln"] = func(fr *frame, args []value) value {
		return fprint(fr, args[0].(iface), sprintfLike(strings.TrimSpace(strings.Repeat("%v ", len(args[1].([]value))))+"\n", args[1].([]value)))
	}

	// ---- sync ----------------------------------------------------------
	for _, n := range []string{"(*sync.Mutex).Lock", "(*sync.Mutex).Unlock", "(*sync.RWMutex).Lock", "(*sync.RWMutex).Unlock",
		"(*sync.RWMutex).RLock", "(*sync.RWMutex).RUnlock"} {
		name := n
		intrinsics[name] = func(fr *frame, args []value) value {
			if args[0].(*value) == nil {
				panic(rtErr("runtime error: invalid memory address or nil pointer dereference"))
			}
			fr.i.lockOp(name, args[0].(*value), fr)
			return nil
		}
	}
	intrinsics["(*sync.Pool).Get"] = func(fr *frame, args []value) value {
		p := args[0].(*value)
		st := fr.i.pools[p]
		if st == nil {
			st = &poolState{}
			fr.i.pools[p] = st
		}
		ex := fr.ex()
		useFree := len(st.free) > 0

		if c := fr.i.conc; useFree && c != nil && c.on && c.thread > 0 {
			// an in-flight request may receive any object Put back so far, or a new one:
			// every alternative is its own schedule (path)
			k := ex.chooseFree(len(st.free) + 1)
			if k > 0 {
				idx := len(st.free) - k
				v := st.free[idx]
				st.free = append(st.free[:idx:idx], st.free[idx+1:]...)
				ex.stats.Covers["pool: context reused"]++
				fr.i.poolGet(v)
				return v
			}
			useFree = false
		}
		if useFree && ex.poolMode == 1 {
			// fork: reuse the pooled object or build a fresh one
			useFree = ex.chooseFree(2) == 0
		}
		if useFree {
			v := st.free[len(st.free)-1]
			st.free = st.free[:len(st.free)-1]
			ex.stats.Covers["pool: context reused"]++
			fr.i.poolGet(v)
			return v
		}
		newf := (*p).(structure)[fieldIndex(recvElem(fr), "New")]
		if isNilRef(newf) {
			return iface{}
		}
		nv := call(fr.i, fr, 0, newf, nil)
		fr.i.poolGet(nv)
		return nv
	}
	// sync.Map: an ordered map from interface keys to interface values
	smap := func(fr *frame, p value) *omap {
		k := p.(*value)
		m := fr.i.syncMaps[k]
		if m == nil {
			m = makeMap(types.NewInterfaceType(nil, nil))
			fr.i.syncMaps[k] = m
		}
		return m
	}
	intrinsics["(*sync.Map).Load"] = func(fr *frame, args []value) value {
		if e := smap(fr, args[0]).find(fr.ex(), args[1]); e != nil {
			return tuple{e.val, true}
		}
		return tuple{iface{}, false}
	}
	intrinsics["(*sync.Map).Store"] = func(fr *frame, args []value) value {
		smap(fr, args[0]).insert(fr.ex(), args[1], args[2])
		return nil
	}
	intrinsics["(*sync.Map).LoadOrStore"] = func(fr *frame, args []value) value {
		m := smap(fr, args[0])
		if e := m.find(fr.ex(), args[1]); e != nil {
			return tuple{e.val, true}
		}
		m.insert(fr.ex(), args[1], args[2])
		return tuple{args[2], false}
	}
	intrinsics["(*sync.Map).LoadAndDelete"] = func(fr *frame, args []value) value {
		m := smap(fr, args[0])
		if e := m.find(fr.ex(), args[1]); e != nil {
			v := e.val
			m.delete(fr.ex(), args[1])
			return tuple{v, true}
		}
		return tuple{iface{}, false}
	}
	intrinsics["(*sync.Map).Delete"] = func(fr *frame, args []value) value {
		smap(fr, args[0]).delete(fr.ex(), args[1])
		return nil
	}
	intrinsics["(*sync.Map).Range"] = func(fr *frame, args []value) value {
		m := smap(fr, args[0])
		for _, e := range append([]*mentry(nil), m.entries...) {
			if r, ok := call(fr.i, fr, 0, args[1], []value{e.key, e.val}).(bool); ok && !r {
				break
			}
		}
		return nil
	}
	intrinsics["(*sync.Pool).Put"] = func(fr *frame, args []value) value {
		p := args[0].(*value)
		st := fr.i.pools[p]
		if st == nil {
			st = &poolState{}
			fr.i.pools[p] = st
		}
		st.free = append(st.free, args[1])
		fr.i.poolPut(args[1])
		return nil
	}

	// ---- net/http boundary ----------------------------------------------
	intrinsics["net/http.Error"] = func(fr *frame, args []value) value {
		httpError(fr, args[0].(iface), args[1], args[2])
		return nil
	}
	intrinsics["net/http.NotFound"] = func(fr *frame, args []value) value {
		httpError(fr, args[0].(iface), "404 page not found", 404)
		return nil
	}
	intrinsics["net/http.StatusText"] = func(fr *frame, args []value) value {
		return http.StatusText(int(fr.concInt(args[0], types.Typ[types.Int])))
	}
	intrinsics["net/http.CanonicalHeaderKey"] = func(fr *frame, args []value) value { return headerKey(fr, args[0]) }
	intrinsics["(net/http.Header).Set"] = func(fr *frame, args []value) value {
		h := args[0].(*omap)
		if h == nil {
			panic(rtErr("assignment to entry in nil map"))
		}
		h.insert(fr.ex(), headerKey(fr, args[1]), []value{args[2]})
		return nil
	}
	intrinsics["(net/http.Header).Add"] = func(fr *frame, args []value) value {
		h := args[0].(*omap)
		if h == nil {
			panic(rtErr("assignment to entry in nil map"))
		}
		k := headerKey(fr, args[1])
		var cur []value
		if e := h.find(fr.ex(), k); e != nil {
			cur = e.val.([]value)
		}
		h.insert(fr.ex(), k, append(append([]value{}, cur...), args[2]))
		return nil
	}
	intrinsics["(net/http.Header).Get"] = func(fr *frame, args []value) value {
		h := args[0].(*omap)
		if e := h.find(fr.ex(), headerKey(fr, args[1])); e != nil {
			if vs := e.val.([]value); len(vs) > 0 {
				return vs[0]
			}
		}
		return ""
	}
	intrinsics["(net/http.Header).Values"] = func(fr *frame, args []value) value {
		h := args[0].(*omap)
		if e := h.find(fr.ex(), headerKey(fr, args[1])); e != nil {
			return e.val
		}
		return []value(nil)
	}
	intrinsics["(net/http.Header).Del"] = func(fr *frame, args []value) value {
		args[0].(*omap).delete(fr.ex(), headerKey(fr, args[1]))
		return nil
	}
	_ = ssa.Function{}
}

func callerWhere(fr *frame) string {
	if fr.caller != nil {
		return fr.caller.where()
	}
	return ""
}

// chooseFree forks over n unconstrained alternatives.
func (e *Exec) chooseFree(n int) int {
	conds := make([]*Term, n)
	for k := range conds {
		conds[k] = e.ts.Bool(true)
	}
	return e.choose(conds)
}

func (e *Exec) nextVec(kind, label string) ReplayVal {
	if e.vpos >= len(e.vector) {
		panic(pathEnd{"replay vector exhausted"})
	}
	rv := e.vector[e.vpos]
	e.vpos++
	if rv.Kind != kind {
		panic(engineErr{fmt.Sprintf("replay vector mismatch: want %s/%s, have %s/%s", kind, label, rv.Kind, rv.Label)})
	}
	return rv
}

func (e *Exec) observe(label string, v value) {
	if s, ok := v.(string); ok {
		e.events = append(e.events, label+"="+strconv.Quote(s))
		return
	}
	e.events = append(e.events, label+"="+toString(v))
}

func (e *Exec) lockEvent(name string, p *value) {}

func init() {
	intrinsics["(*net/url.URL).EscapedPath"] = func(fr *frame, args []value) value {
		p := args[0].(*value)
		if p == nil {
			panic(rtErr("runtime error: invalid memory address or nil pointer dereference"))
		}
		st := (*p).(structure)
		t := recvElem(fr)
		pathV, rawV := st[fieldIndex(t, "Path")], st[fieldIndex(t, "RawPath")]
		path, ok1 := pathV.(string)
		raw, ok2 := rawV.(string)
		if !ok1 || !ok2 {
			if g, ok := fr.i.ghost["EscapedPath"]; ok {
				return g
			}
			// symbolic fields: a non-empty RawPath that the harness built as a valid
			// encoding of Path is returned as is (net/url's contract); otherwise Path
			// itself when it needs no escaping is the harness's responsibility
			if strLen(rawV) > 0 {
				return rawV
			}
			// no RawPath: the harness restricts such paths to bytes that need no escaping
			return pathV
		}
		u := url.URL{Path: path, RawPath: raw}
		return u.EscapedPath()
	}
}

func init() {
	// url.Values.Encode: native on concrete pairs (the escaping itself is net/url's contract)
	intrinsics["(net/url.Values).Encode"] = func(fr *frame, args []value) value {
		m := args[0].(*omap)
		vals := url.Values{}
		if m != nil {
			for _, e := range m.entries {
				k, ok := e.key.(string)
				if !ok {
					fr.ex().unsupported("url.Values.Encode with a symbolic key")
				}
				for _, x := range e.val.([]value) {
					s, ok := x.(string)
					if !ok {
						fr.ex().unsupported("url.Values.Encode with a symbolic value")
					}
					vals.Add(k, s)
				}
			}
		}
		return vals.Encode()
	}
}
