package rux

// C16 — Resource registers exactly the documented REST table for the
// controller.

type verifAction struct {
	name    string
	methods []string
	suffix  string // pattern below the resource path
}

var verifRESTTable = []verifAction{
	{"Index", []string{"GET"}, ""},
	{"Create", []string{"GET"}, "/create"},
	{"Store", []string{"POST"}, ""},
	{"Show", []string{"GET"}, "/{id}"},
	{"Edit", []string{"GET"}, "/{id}/edit"},
	{"Update", []string{"PUT", "PATCH"}, "/{id}"},
	{"Delete", []string{"DELETE"}, "/{id}"},
}

func verifLower3(k int, uses bool) string {
	d := func(x int) string { return string(rune('0' + x)) }
	p := "vc"
	if uses {
		p = "vu"
	}
	return p + d(k/100) + d(k/10%10) + d(k%10)
}

func verifHarness_C16_resource() {
	cfg := verifCfg()
	subset := cfg % 128
	uses := (cfg/128)%2 == 1
	bases := []string{"/", "/api/", "/v1.0/", "/API/V2/"}
	base := bases[(cfg/256)%len(bases)]
	verifMapOrder((cfg / 1024) % 7) // iteration order of the action table is unspecified
	var ctl any
	if uses {
		ctl = verifC16WithUses[subset]
	} else {
		ctl = verifC16Plain[subset]
	}
	res := base + verifLower3(subset, uses)
	// registered at top level or inside a group (whose prefix then comes first)
	inGroup := (cfg/21504)%2 == 1
	if inGroup {
		res = "/grp" + res
	}
	v := &verifIDs{}
	next := 0
	usesIDs := map[string][]int{}
	verifC16Uses = map[string][]HandlerFunc{}
	if uses {
		for i, a := range verifRESTTable {
			if i%2 == 0 {
				hs, ids := v.mk(&next, 1+i%3, 0)
				verifC16Uses[a.name] = hs
				usesIDs[a.name] = ids
			}
		}
		bogus, _ := v.mk(&next, 1, 0)
		verifC16Uses["Nothing"] = bogus
	}
	r := New()
	// resource-level middleware, in a slice with spare capacity in half of the configurations
	var groupIDs []int
	var groupMws []HandlerFunc
	if ng := (cfg / 7168) % 3; ng > 0 {
		hs, ids := v.mk(&next, ng, 3)
		groupMws, groupIDs = hs, ids
	}
	k := verifCatch(func() {
		if inGroup {
			r.Group("/grp", func() { r.Resource(base, ctl, groupMws...) })
		} else {
			r.Resource(base, ctl, groupMws...)
		}
	})
	verifAssert(k == "", "a pointer-to-struct controller is accepted")

	// (1) exactly the documented (method, path, name) triples of the implemented actions
	var defs []verifRouteDef
	var acts []string
	nExpected := 0
	okTable := true
	for i, a := range verifRESTTable {
		if subset>>i&1 == 0 {
			okTable = verifAnd(okTable, r.GetRoute(verifLower3(subset, uses)+"_"+lower(a.name)) == nil)
			continue
		}
		nExpected++
		rt := r.GetRoute(verifLower3(subset, uses) + "_" + lower(a.name))
		if rt == nil {
			okTable = false
			continue
		}
		okTable = verifAnd(okTable, rt.Path() == res+a.suffix && verifSameStrings(rt.Methods(), a.methods))
		// (3) per-action middleware only on its own action
		okTable = verifAnd(okTable, verifSameInts(v.of(rt.Handlers()), verifCat(groupIDs, usesIDs[a.name])))
		defs = append(defs, verifRouteDef{res + a.suffix, a.methods})
		acts = append(acts, a.name)
	}
	verifAssert(okTable, "every implemented action is registered under its documented name, path and methods with only its own middleware; no other action is")
	verifAssert(len(r.NamedRoutes()) == nExpected, "nothing else is registered")
	total := 0
	for _, d := range defs {
		total += len(d.methods)
	}
	nRoutes := 0
	seenRoute := map[*Route]bool{}
	r.IterateRoutes(func(rt *Route) {
		if !seenRoute[rt] {
			seenRoute[rt] = true
			nRoutes++
		}
	})
	verifAssert(nRoutes == nExpected && total >= nExpected, "the router holds exactly one route per implemented action")

	// the same controller registered once more on the same router under another base path: its
	// whole table exists there too (the names go to the latest registration; the earlier routes stay)
	{
		k2 := verifCatch(func() { r.Resource("/second/", ctl) })
		verifAssert(k2 == "", "the same controller can be registered under a second base path")
		res2 := "/second/" + verifLower3(subset, uses)
		okSecond, okFirst := true, true
		for i, a := range verifRESTTable {
			if subset>>i&1 == 0 {
				continue
			}
			concrete := func(base string) string {
				out := base
				for j := 0; j < len(a.suffix); j++ {
					if a.suffix[j] == '{' {
						out += "7"
						for j < len(a.suffix) && a.suffix[j] != '}' {
							j++
						}
						continue
					}
					out += string(a.suffix[j])
				}
				return out
			}
			for _, m := range a.methods {
				rt2, _, _ := r.QuickMatch(m, concrete(res2))
				okSecond = verifAnd(okSecond, rt2 != nil && rt2.Path() == res2+a.suffix)
				rt1, _, _ := r.QuickMatch(m, concrete(res))
				okFirst = verifAnd(okFirst, rt1 != nil && rt1.Path() == res+a.suffix)
			}
		}
		verifAssert(okSecond, "every implemented action is reachable under the second base path")
		verifAssert(okFirst, "and still under the first")
	}

	// a second registration of the same controller (its Uses() table is shared) is as complete as the first
	if uses {
		nUses := len(verifC16Uses)
		r2 := New()
		r2.Resource("/again/", ctl)
		ok2 := len(verifC16Uses) == nUses
		for i, a := range verifRESTTable {
			if subset>>i&1 == 1 {
				rt2 := r2.GetRoute(verifLower3(subset, uses) + "_" + lower(a.name))
				ok2 = verifAnd(ok2, rt2 != nil && verifSameInts(v.of(rt2.Handlers()), usesIDs[a.name]))
			}
		}
		verifAssert(ok2, "registering the controller again attaches the same per-action middleware (the controller's Uses() table is not consumed)")
	}

	// (2) every probe is dispatched to the action the table gives
	m := []string{"GET", "POST", "PUT", "PATCH", "DELETE", "HEAD", "OPTIONS", "BREW"}[verifChoice("method", 8)]
	tn := verifLen("tail_len", 0, verifParam("L"))
	tail := verifString("tail", tn)
	if tn > 0 {
		verifAssume(tail[0] == '/')
		last := tail[tn-1]
		verifAssume(verifAnd(last != '/', verifOr(verifAnd(last > 0x20, last < 0x80), last >= 0xB0)))
	}
	probe := res + tail
	verifC16Trace = nil
	rec := verifNewWriter()
	r.ServeHTTP(rec, verifRequest(m, probe))
	ran := -1
	if len(verifC16Trace) == 1 {
		for i := range acts {
			if acts[i] == verifC16Trace[0] {
				ran = i
			}
		}
	}
	verifAssert(len(verifC16Trace) <= 1, "at most one action runs")
	verifAssert(verifOr(len(verifC16Trace) == 0, ran >= 0), "only an implemented action can run")
	direct := verifWinnerIs(defs, m, probe, ran)
	if m == "HEAD" {
		direct = verifOr(direct, verifAnd(verifWinnerIs(defs, "HEAD", probe, -1), verifWinnerIs(defs, "GET", probe, ran)))
	}
	verifAssert(direct, "the dispatched action is the one the REST table gives (GET /res/create is create, never show)")
	if ran >= 0 {
		verifCover("C16 action dispatched")
	} else {
		verifCover("C16 no action")
	}
}

func lower(s string) string {
	b := []byte(s)
	for i := range b {
		if b[i] >= 'A' && b[i] <= 'Z' {
			b[i] += 32
		}
	}
	return string(b)
}

type verifNotStruct int

func (*verifNotStruct) Index(c *Context) {}

// (4) a non-pointer or non-struct controller is rejected.
func verifHarness_C16_invalid() {
	r := New()
	var bad any
	switch verifCfg() % 5 {
	case 0:
		bad = Vc127{}
	case 1:
		n := verifNotStruct(1)
		bad = &n
	case 2: // a pointer to a pointer is a pointer to a non-struct
		p := &Vc127{}
		bad = &p
	case 3:
		p := &Vc127{}
		pp := &p
		bad = &pp
	case 4:
		var i any = &Vc127{}
		bad = &i // pointer to an interface
	}
	k := verifCatch(func() { r.Resource("/", bad) })
	verifAssert(k == "panic", "a non-pointer or non-struct controller is rejected at registration")
	verifCover("C16 invalid controller")
}

// Two resources served by two instances of one controller type (round 14,
// C16-I): each resource's routes run the methods of the instance it was
// registered with — on one router and across routers, in either order.
type verifTagged struct{ tag string }

func (t *verifTagged) Index(c *Context)  { verifC16Trace = append(verifC16Trace, t.tag+":Index") }
func (t *verifTagged) Show(c *Context)   { verifC16Trace = append(verifC16Trace, t.tag+":Show") }
func (t *verifTagged) Update(c *Context) { verifC16Trace = append(verifC16Trace, t.tag+":Update") }

func verifHarness_C16_twoInstances() {
	sameRouter := verifChoice("sameRouter", 2) == 1
	r1 := New()
	r2 := r1
	if !sameRouter {
		r2 = New()
	}
	r1.Resource("/one/", &verifTagged{tag: "one"}) // the resource lives under base + lower-cased type name
	r2.Resource("/two/", &verifTagged{tag: "two"})
	which := verifChoice("probe", 2)
	r, base, tag := r1, "/one/veriftagged", "one"
	if which == 1 {
		r, base, tag = r2, "/two/veriftagged", "two"
	}
	probes := []struct{ m, p, want string }{
		{"GET", base, tag + ":Index"}, {"GET", base + "/7", tag + ":Show"},
		{"PUT", base + "/7", tag + ":Update"}, {"PATCH", base + "/7", tag + ":Update"},
	}
	pr := probes[verifChoice("action", 4)]
	verifC16Trace = nil
	k := verifCatch(func() { r.ServeHTTP(verifNewWriter(), verifRequest(pr.m, pr.p)) })
	verifAssert(k == "", "no panic")
	verifAssert(len(verifC16Trace) == 1 && verifC16Trace[0] == pr.want, "a resource's routes run the methods of the controller instance it was registered with")
	verifCover("C16 two instances")
}
