package rux

// Shared pieces of the dispatch harnesses: a recording ResponseWriter with
// ghost counters, request construction, traced handlers.

import (
	"net/http"
	"net/url"
)

type verifWriter struct {
	hdr       http.Header
	whCalls   int  // WriteHeader calls received
	whStatus  int  // status of the first WriteHeader
	nbody     int  // body bytes accepted
	body      []byte
	preCommit int  // Write/Flush that arrived before any WriteHeader (net/http would send an implicit 200)
	flushes   int
	shortWr   bool // Write accepts a symbolic number of bytes and may fail
	failNext  bool
}

func (w *verifWriter) Header() http.Header { return w.hdr }

func (w *verifWriter) WriteHeader(code int) {
	w.whCalls++
	if w.whCalls == 1 {
		w.whStatus = code
	}
}

type verifErr struct{}

func (verifErr) Error() string { return "verif: write failed" }

func (w *verifWriter) Write(b []byte) (int, error) {
	if w.whCalls == 0 {
		w.preCommit++
	}
	n := len(b)
	var err error
	if w.shortWr {
		n = verifInt("accepted")
		verifAssume(verifAnd(n >= 0, n <= len(b)))
		if verifBool("writeErr") {
			err = verifErr{}
		}
	}
	w.nbody += n
	if !w.shortWr {
		w.body = append(w.body, b...)
	}
	return n, err
}

func (w *verifWriter) Flush() {
	if w.whCalls == 0 {
		w.preCommit++
	}
	w.flushes++
}

func verifNewWriter() *verifWriter { return &verifWriter{hdr: http.Header{}} }

func verifRequest(method, path string) *http.Request {
	return &http.Request{Method: method, URL: &url.URL{Path: path}, Header: http.Header{}}
}

// verifTrace is the ghost trace of handler events.
type verifTrace struct {
	ev []int // +id = enter, -id = leave (ids start at 1)
}

func (t *verifTrace) enter(id int) { t.ev = append(t.ev, id) }
func (t *verifTrace) leave(id int) { t.ev = append(t.ev, -id) }

// verifHandler: enters, calls Next() k times, leaves.
func verifHandler(t *verifTrace, id int, nexts int) HandlerFunc {
	return func(c *Context) {
		t.enter(id)
		for j := 0; j < nexts; j++ {
			c.Next()
		}
		t.leave(id)
	}
}

func verifSameInts(a, b []int) bool {
	if len(a) != len(b) {
		return false
	}
	for i := range a {
		if a[i] != b[i] {
			return false
		}
	}
	return true
}
