package rux

// Shared pieces of the dispatch harnesses: a recording ResponseWriter with
// ghost counters, request construction, traced handlers.

import (
	"bufio"
	"io"
	"net"
	"net/http"
	"net/url"
)

type verifWriter struct {
	hdr       http.Header
	whCalls   int  // WriteHeader calls received
	whStatus  int  // status of the first WriteHeader
	nbody     int  // body bytes accepted
	body      []byte
	preCommit int  // Write/Flush that arrived before any WriteHeader (net/http would send an implicit 200)
	flushes   int
	shortWr   bool // Write accepts a symbolic number of bytes and may fail
	failNext  bool
	hijacks     int
	refuse      bool // every Write fails (the client is gone)
	strictCodes bool // WriteHeader panics for codes outside 100..999, like net/http's
}

func (w *verifWriter) Header() http.Header { return w.hdr }

func (w *verifWriter) WriteHeader(code int) {
	if w.strictCodes && (code < 100 || code > 999) {
		// what net/http's own response writer does with such a code
		panic("invalid WriteHeader code")
	}
	w.whCalls++
	if w.whCalls == 1 {
		w.whStatus = code
	}
}

type verifErr struct{}

func (verifErr) Error() string { return "verif: write failed" }

func (w *verifWriter) Write(b []byte) (int, error) {
	if w.refuse {
		return 0, verifErr{}
	}
	if w.whCalls == 0 {
		w.preCommit++
	}
	n := len(b)
	var err error
	if w.shortWr {
		n = verifInt("accepted")
		verifAssume(verifAnd(n >= 0, n <= len(b)))
		if verifBool("writeErr") {
			err = verifErr{}
		}
	}
	w.nbody += n
	if !w.shortWr {
		w.body = append(w.body, b...)
	}
	return n, err
}

// ReadFrom makes the recording writer an io.ReaderFrom, like net/http's own
// response: bytes that arrive this way before any WriteHeader count as
// pre-commit output too.
func (w *verifWriter) ReadFrom(src io.Reader) (int64, error) {
	if w.whCalls == 0 {
		w.preCommit++
	}
	var total int64
	buf := make([]byte, 8)
	for {
		n, err := src.Read(buf)
		w.body = append(w.body, buf[:n]...)
		w.nbody += n
		total += int64(n)
		if err != nil {
			return total, nil
		}
	}
}

// Hijack makes the recording writer an http.Hijacker (a connection upgrade takes the
// connection away; nothing is known about it here).
func (w *verifWriter) Hijack() (net.Conn, *bufio.ReadWriter, error) {
	w.hijacks++
	return nil, nil, nil
}

// verifPlainReader is a source without WriteTo, so that io.Copy looks at the destination.
type verifPlainReader struct{ data []byte }

func (r *verifPlainReader) Read(p []byte) (int, error) {
	if len(r.data) == 0 {
		return 0, io.EOF
	}
	n := copy(p, r.data)
	r.data = r.data[n:]
	return n, nil
}

func (w *verifWriter) Flush() {
	if w.whCalls == 0 {
		w.preCommit++
	}
	w.flushes++
}

func verifNewWriter() *verifWriter { return &verifWriter{hdr: http.Header{}} }

func verifRequest(method, path string) *http.Request {
	return &http.Request{Method: method, URL: &url.URL{Path: path}, Header: http.Header{}}
}

// verifRequestQ: a request with a query string.
func verifRequestQ(method, path, rawQuery string) *http.Request {
	return &http.Request{Method: method, URL: &url.URL{Path: path, RawQuery: rawQuery}, Header: http.Header{}}
}

// verifTrace is the ghost trace of handler events.
type verifTrace struct {
	ev []int // +id = enter, -id = leave (ids start at 1)
}

func (t *verifTrace) enter(id int) { t.ev = append(t.ev, id) }
func (t *verifTrace) leave(id int) { t.ev = append(t.ev, -id) }

// verifHandler: enters, calls Next() k times, leaves.
func verifHandler(t *verifTrace, id int, nexts int) HandlerFunc {
	return func(c *Context) {
		t.enter(id)
		for j := 0; j < nexts; j++ {
			c.Next()
		}
		t.leave(id)
	}
}

func verifSameInts(a, b []int) bool {
	if len(a) != len(b) {
		return false
	}
	for i := range a {
		if a[i] != b[i] {
			return false
		}
	}
	return true
}
