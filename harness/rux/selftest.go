package rux

// Engine self-test: exercises interpreter features and intrinsics on symbolic
// inputs and records observations; the translation validation of every run
// (path witnesses executed natively and by the engine) compares them with the
// real implementations.

import (
	"path"
	"strings"
	"sync"
	"sync/atomic"
)

func verifHarness_selftest() {
	n := verifLen("n", 0, verifParam("L"))
	s := verifString("s", n)
	verifAssume(verifAlphabet(s, "/.a ,%A"))
	var once sync.Once
	var cnt int32
	for i := 0; i < 2; i++ {
		once.Do(func() { atomic.AddInt32(&cnt, 1) })
	}
	var sb strings.Builder
	sb.WriteString("<")
	sb.WriteString(s)
	sb.WriteByte('>')
	verifObserve("builder", sb.String())
	verifObserve("once", int(atomic.LoadInt32(&cnt)))
	verifObserve("clean", path.Clean(s))
	verifObserve("upper", strings.ToUpper(s))
	verifObserve("trim", strings.Trim(strings.TrimSpace(s), "/"))
	verifObserve("count", strings.Count(s, "/"))
	verifObserve("index", strings.Index(s, "a/"))
	verifObserve("lastindex", strings.LastIndexByte(s, '/'))
	verifObserve("split", len(strings.Split(s, ",")))
	verifObserve("replace", strings.ReplaceAll(s, "a", "bb"))
	verifObserve("hasprefix", strings.HasPrefix(s, "/a"))
	verifObserve("contains", strings.Contains(s, "%A"))
	verifObserve("trimprefix", strings.TrimPrefix(s, "/"))
	verifObserve("fields", len(strings.Fields(s)))
	verifObserve("cmp", s < "/a")
	b := []byte(s)
	b = append(b, 'x')
	verifObserve("bytes", string(b[:len(b)-1]) == s)
	verifAssert(sb.Len() == n+2, "builder length")
	verifCover("selftest")
}
