package rux

import "strconv"

// C13 — bad route definitions fail at registration; accepted ones never
// panic at lookup.

func verifASCII(s string) bool {
	ok := true
	for i := 0; i < len(s); i++ {
		ok = verifAnd(ok, s[i] < 0x80)
	}
	return ok
}

func verifIsMethodName(s string) bool {
	r := false
	for _, m := range []string{"GET", "POST", "PUT", "PATCH", "DELETE", "OPTIONS", "HEAD", "CONNECT", "TRACE"} {
		r = verifOr(r, s == m)
	}
	return r
}

// (a) a method name is accepted only if, trimmed and upper-cased, it is one
// of the nine supported names.
func verifHarness_C13_methodName() {
	n := verifLen("n", 0, verifParam("L"))
	m := verifString("m", n)
	verifAssume(verifASCII(m))
	// spec: trim ASCII white space, upper-case
	a, b := 0, n
	for a < b && verifOr(m[a] == ' ', verifAnd(m[a] >= '\t', m[a] <= '\r')) {
		a++
	}
	for b > a && verifOr(m[b-1] == ' ', verifAnd(m[b-1] >= '\t', m[b-1] <= '\r')) {
		b--
	}
	up := ""
	for i := a; i < b; i++ {
		c := m[i]
		if verifAnd(c >= 'a', c <= 'z') {
			c -= 32
		}
		up += string(c)
	}
	r := New()
	k := verifCatch(func() { r.Add("/x", verifNop, m) })
	verifAssert(k != "runtime", "registration never dies with a run-time error")
	if k == "" {
		// a blank name is not a method name either: it must be rejected like an unknown one
		verifAssert(verifIsMethodName(up), "an accepted method name is one of the nine supported names")
		verifCover("C13 method accepted")
	} else {
		verifAssert(verifNot(verifIsMethodName(up)), "a supported method name is not rejected")
		verifCover("C13 method rejected")
	}
}

// verifHasCapture: spec of "contains a capturing group": a '(' that is not
// escaped, not inside a character class, and not followed by "?:" / "?flags".
func verifHasCapture(v string) bool {
	inClass := false
	for i := 0; i < len(v); i++ {
		c := v[i]
		if c == '\\' {
			i++
			continue
		}
		if inClass {
			if c == ']' {
				inClass = false
			}
			continue
		}
		if c == '[' {
			inClass = true
			continue
		}
		if c == '(' {
			if i+1 >= len(v) || v[i+1] != '?' {
				return true
			}
			if i+2 < len(v) && (v[i+2] == 'P' || v[i+2] == '<') {
				return true
			}
		}
	}
	return false
}

// (b) the variable-regex pre-check: whatever it accepts has no capturing
// group, and it never dies with a run-time error instead of its message.
func verifHarness_C13_varRegex() {
	n := verifLen("n", 0, verifParam("L"))
	v := verifString("v", n)
	verifAssume(verifAlphabet(v, `()?:\d+x[]P<`))
	rt := &Route{}
	k := verifCatch(func() { rt.goodRegexString("id", v) })
	verifAssert(k != "runtime", "the variable-regex check never dies with a run-time error")
	if k == "" {
		verifAssert(!verifHasCapture(v), "an accepted variable regex has no capturing group")
		verifCover("C13 regex accepted")
	} else {
		verifCover("C13 regex rejected")
	}
}

var verifC13Invalid = []func(r *Router){
	func(r *Router) { r.GET("/x", nil) },
	func(r *Router) { r.Add("/x", verifNop, " ") ; r.AddRoute(&Route{path: "/y", handler: verifNop}) },
	func(r *Router) { r.GET("/a[/b]/c", verifNop) },
	func(r *Router) { r.GET("/a[/{v}]/c", verifNop) },
	func(r *Router) { r.GET("/a/{v:[a-}", verifNop) },
	func(r *Router) { r.GET(`/a/{v:(\d+)}`, verifNop) },
	func(r *Router) { r.GET(`/a/{v:(?:x)(y)}`, verifNop) },
	func(r *Router) { r.GET("/x", verifNop); r.WithOptions(EnableCaching) },
	func(r *Router) { r.GET("/x", verifNop, make([]HandlerFunc, 63)...) },
	func(r *Router) { r.GET("/x", verifNop).Use(make([]HandlerFunc, 63)...) },
	func(r *Router) {
		r.Group("/g", func() { r.GET("/x", verifNop, make([]HandlerFunc, 40)...) }, make([]HandlerFunc, 30)...)
	},
	func(r *Router) { // each part far below the limit, only the merged chain is not
		rt := NewRoute("/x", verifNop, "GET").Use(make([]HandlerFunc, 32)...)
		r.Group("/g", func() { r.AddRoute(rt) }, make([]HandlerFunc, 31)...)
	},
	func(r *Router) {
		r.Group("/g", func() { r.Any("/x", verifNop, make([]HandlerFunc, 40)...) }, make([]HandlerFunc, 23)...)
	},
	func(r *Router) {
		r.Group("/g", func() {
			r.Group("/h", func() { r.GET("/x", verifNop) }, make([]HandlerFunc, 32)...)
		}, make([]HandlerFunc, 31)...)
	},
	func(r *Router) { r.Add("/x", verifNop, "FETCH") },
	func(r *Router) { r.Add("/x", verifNop, "DEL") },
	func(r *Router) { r.Add("/x", verifNop, "GET,POST") },
	// far beyond the limit (sizes at which a narrow counter would wrap), through each registration path
	func(r *Router) { r.GET("/x", verifNop, make([]HandlerFunc, 128)...) },
	func(r *Router) { r.GET("/x", verifNop).Use(make([]HandlerFunc, 200)...) },
	func(r *Router) {
		r.Group("/g", func() { r.GET("/x", verifNop, make([]HandlerFunc, 100)...) }, make([]HandlerFunc, 156)...)
	},
	func(r *Router) { r.GET("/x", verifNop, make([]HandlerFunc, 300)...) },
	func(r *Router) { r.GET("/x", verifNop).Use(make([]HandlerFunc, 255)...) },
	// an optional part that closes before the end, although the pattern ends in ']' and the brackets balance
	func(r *Router) { r.GET("/blog[/{category}][/{id}]", verifNop) },
	func(r *Router) { r.GET("/blog[/go]/12[.html]", verifNop) },
	func(r *Router) { r.GET("/a[/{v}[/x]/y[/z]]", verifNop) },
	func(r *Router) { r.GET("/a[/b]/{v}[/{w}]", verifNop) },
}

// (c) every catalogued invalid definition is rejected by a panic at
// registration time (an explicit panic, not a run-time error).
func verifHarness_C13_invalidRejected() {
	f := verifC13Invalid[verifCfg()%len(verifC13Invalid)]
	r := New()
	k := verifCatch(func() { f(r) })
	verifAssert(k == "panic", "an invalid definition is rejected by a panic at registration")
	verifCover("C13 invalid definition tried")
}

var verifC13Odd = []string{"/", "//", " /a ", "a", "/a/", "/{v}", "/{v}/", "/a/{v:.+}", "/{a}{b}", "/a.b/{v}.x", `/{v:[a-z]{1,2}}`,
	"/a[/{v}]", "/[{v}]", "/a/{v:\\d+}[.x]", "/{all}", "/{v:(?:x)(?:y)}", "/a/{v: \\d+ }", "/{ v }",
	// regex metacharacters in literal text and quoting inside a variable regex
	"/w(x)[/a]", `/{v:\Q[\E(x)}`, "/a+b[/c]", "/(?:a)/{v}", "/a$[/b]", "/a/b.c[.d]"}

// (d) accepted tables can be matched against any method and any path string
// without the router panicking, under every option combination (including
// caching on a router without routes).
func verifHarness_C13_lookupTotal() {
	cfg := verifCfg()
	opt := cfg % 16
	tbl := cfg / 16
	var opts []func(*Router)
	if opt&1 != 0 {
		opts = append(opts, EnableCaching)
	}
	if opt&2 != 0 {
		opts = append(opts, HandleMethodNotAllowed)
	}
	if opt&4 != 0 {
		opts = append(opts, HandleFallbackRoute)
	}
	if opt&8 != 0 {
		opts = append(opts, StrictLastSlash)
	}
	r := New(opts...)
	if tbl > 0 {
		i := (tbl - 1) % len(verifC13Odd)
		k := verifCatch(func() { r.Add(verifC13Odd[i], verifNop, "GET", "POST") })
		verifAssume(k == "") // only accepted definitions are in scope here
		if tbl > len(verifC13Odd) {
			j := (tbl - 1) / len(verifC13Odd) % len(verifC13Odd)
			k = verifCatch(func() { r.Add(verifC13Odd[j], verifNop, "GET") })
			verifAssume(k == "")
		}
	}
	mn := verifLen("mlen", 0, 4)
	m := verifString("m", mn)
	if verifChoice("mkind", 2) == 0 {
		verifAssume(verifOr(m == "GET", verifOr(m == "HEAD", m == "POST")))
	}
	pn := verifLen("plen", 0, verifParam("L"))
	p := verifString("p", pn)
	k := verifCatch(func() { r.QuickMatch(m, p) })
	verifAssert(k == "", "lookup on an accepted table never panics")
	verifCover("C13 lookup tried")
}

// Options cannot be changed once routes exist - however many routes that is
// (counts at which a narrow counter would be back at zero included).
func verifHarness_C13_optionsAfterRoutes() {
	n := []int{1, 255, 256, 65535, 65536, 65537}[verifCfg()%6]
	r := New()
	methods := []string{"GET", "POST", "PUT", "PATCH", "DELETE", "OPTIONS", "HEAD", "TRACE"}
	left := n
	for i := 0; left > 0; i++ {
		k := len(methods)
		if left < k {
			k = left
		}
		r.Add("/s"+strconv.Itoa(i), verifNop, methods[:k]...)
		left -= k
	}
	k := verifCatch(func() { r.WithOptions(EnableCaching) })
	verifAssert(k == "panic", "options cannot be set after routes have been added")
	verifCover("C13 options after routes")
}
