package rux

// C09 — a panicking handler is contained and leaves the router healthy.

import "net/http"

type verifPanicVal struct{ id int }

type verifWrapErr struct{ err error }

func (w verifWrapErr) Error() string { return "wrapped: " + w.err.Error() }
func (w verifWrapErr) Unwrap() error { return w.err }

func verifHarness_C09_panic() {
	n := 1 + verifChoice("n", verifParam("N")) // chain length incl. main
	g := verifChoice("globals", verifParam("N")-1) // how many of them are global
	if g >= n {
		g = n - 1
	}
	kind := verifChoice("where", 3) // 0 route chain, 1 not-found chain, 2 not-allowed chain
	p := verifChoice("pos", n)
	after := verifChoice("afterNext", 2) == 1
	hook := verifChoice("hook", 4) // 0 none, 1 does nothing, 2 status only, 3 status+body
	onErr := verifChoice("onError", 3) // 0 no OnError handler, 1 installed, 2 installed and it is the crash point
	addErr := verifChoice("addError", 2) == 1 || onErr == 2
	wroteBefore := verifChoice("wroteBefore", 2) == 1 // the response is already committed when the crash happens
	code := 0
	if hook >= 2 {
		code = verifInt("code")
		verifAssume(verifAnd(code >= 100, code <= 599))
	}
	// how the handler crashes: an explicit panic, or by committing a status code that the
	// underlying writer refuses with a panic (net/http does for codes outside 100..999)
	badStatus := onErr == 0 && !wroteBefore && verifChoice("crashKind", 2) == 1
	tr := &verifTrace{}
	panicked := false
	lateEnter := false
	second := false
	// the value panicked with: a pointer, a string, net/http's abort sentinel, an error wrapping it
	// (the last three only in the plain scenario, to keep the product small)
	var pv any = &verifPanicVal{7}
	if onErr == 0 && !addErr && !wroteBefore {
		switch verifChoice("value", 4) {
		case 1:
			pv = "boom"
		case 2:
			pv = http.ErrAbortHandler
		case 3:
			pv = verifWrapErr{http.ErrAbortHandler}
		}
	}
	mk := func(i int) HandlerFunc {
		return func(c *Context) {
			if panicked && !second {
				lateEnter = true
			}
			tr.enter(i + 1)
			if i == 0 && addErr && !second {
				c.AddError(verifErr{})
			}
			if i == 0 && wroteBefore && !second {
				c.WriteString("partial")
			}
			if onErr == 2 {
				c.Next()
				tr.leave(i + 1)
				return
			}
			if i == p && !after && !panicked {
				panicked = true
				if badStatus {
					c.SetStatus(1000)
					c.WriteString("x")
				}
				panic(pv)
			}
			c.Next()
			if i == p && !panicked {
				panicked = true
				if badStatus {
					c.SetStatus(1000)
					c.WriteString("x")
				}
				panic(pv)
			}
			tr.leave(i + 1)
		}
	}
	r := New(HandleMethodNotAllowed)
	hookRuns := 0
	var hookSaw any
	if hook > 0 {
		r.OnPanic = func(c *Context) {
			hookRuns++
			hookSaw, _ = c.Get(CTXRecoverResult)
			if hook >= 2 {
				c.SetStatus(code)
			}
			if hook == 3 {
				c.WriteString("E")
			}
		}
	}
	onErrRanAfterPanic := false
	if onErr > 0 {
		r.OnError = func(c *Context) {
			if second {
				return
			}
			if onErr == 2 {
				panicked = true
				panic(pv)
			}
			if panicked {
				onErrRanAfterPanic = true
			}
		}
	}
	var chain []HandlerFunc
	for i := 0; i < n; i++ {
		chain = append(chain, mk(i))
	}
	r.Use(chain[:g]...)
	o := &verifObs{}
	r.GET("/ok/{id}", verifObserveCtx(o))
	method, path := "GET", "/x"
	switch kind {
	case 0:
		r.GET("/x", chain[n-1], chain[g:n-1]...)
	case 1:
		r.NotFound(chain[g:]...)
		path = "/nowhere"
	case 2:
		r.GET("/x", verifNop)
		r.NotAllowed(chain[g:]...)
		method = "POST"
	}
	rec := verifNewWriter()
	rec.strictCodes = badStatus
	var escaped any
	func() {
		defer func() { escaped = recover() }()
		r.ServeHTTP(rec, verifRequest(method, path))
	}()
	if badStatus {
		// the panic comes out of the writer; no status can be committed for this request
		verifAssert(panicked, "the crash point was reached")
		if hook == 0 {
			verifAssert(escaped != nil, "without a hook the panic propagates to the caller")
		} else {
			verifAssert(escaped == nil, "with a hook the panic does not escape ServeHTTP (also when the commit itself is what panicked)")
			verifAssert(hookRuns == 1, "the hook runs exactly once")
		}
		verifCover("C09 crash scenario")
		return
	}
	verifAssert(panicked, "the crash point was reached")
	verifAssert(!lateEnter, "no handler starts after the panic")
	verifAssert(!onErrRanAfterPanic, "the OnError handler does not run after a panic either")
	if hook == 0 {
		verifAssert(escaped == pv, "without a hook the panic propagates to the caller unchanged")
	} else {
		verifAssert(escaped == nil, "with a hook the panic does not escape ServeHTTP")
		verifAssert(hookRuns == 1, "the hook runs exactly once")
		verifAssert(hookSaw == pv, "the hook finds the recovered value under the documented key")
		want := 200
		if hook >= 2 && !wroteBefore {
			want = code
		}
		verifAssert(rec.whCalls == 1 && rec.whStatus == want, "the response is committed once with the status the hook produced (or the one already committed)")
		verifAssert(rec.preCommit == 0, "header before body")
		if hook == 3 {
			wantBody := "E"
			if wroteBefore {
				wantBody = "partialE"
			}
			verifAssert(string(rec.body) == wantBody, "the hook's body is (the rest of) the response body")
		}
	}
	// the router stays usable: a following request behaves as on a fresh router
	second = true
	rec2 := verifNewWriter()
	req2 := verifRequest("GET", "/ok/7")
	func() {
		defer func() { recover() }()
		r.ServeHTTP(rec2, req2)
	}()
	verifAssert(o.seen, "the following request is served")
	verifAssert(o.nData == 2 && o.nParams == 1 && o.id == "7" && o.nErrors == 0 && !o.aborted && o.status == 0 && o.length == -1 && o.ownResp && o.req == req2,
		"the following request observes a pristine context")
	verifAssert(rec2.whCalls == 1 && rec2.whStatus == 200, "the following request is answered normally")
	verifCover("C09 crash scenario")
}
