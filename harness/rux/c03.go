package rux

// C03 — concurrent requests are independent of each other and race-free.
//
// Symbolically: after registration the heap reachable from the router is
// marked shared; two requests are executed one after the other by the
// interpreter, each as its own thread, and every access to shared memory and
// every lock operation is logged.  verifRaceCheck() turns each pair of
// conflicting accesses of the two requests into a clock-variable query
// ("can both happen at the same logical time under program order and lock
// exclusion?") decided by the solver.  Without any unsynchronised conflicting
// pair every request reads, outside the mutex-guarded cache, only values
// written before the requests started, hence runs exactly as it runs alone;
// the guarded cache is transparent under every serialisation (C07).
//
// Natively (replay): the same two requests are served concurrently many
// times by real goroutines under the race detector and every response is
// compared with the response of the request served alone.

import (
	"net/http"
	"sync"
	"time"
)

// a handler that panics (contained by the OnPanic hook of shapes that have one)
func verifC03Boom(c *Context) { panic("boom") }

type verifC03Shape struct {
	useCalls []int // global middleware per Use call
	routeMws int   // route middleware; negative: added one by one through Route.Use (spare capacity)
	cache    int // -1 off, else capacity
	notAllow bool
	onPanic  bool // OnPanic hook installed and a panicking route registered
	fallback int  // custom NotFound / NotAllowed chains of this many handlers (0: the built-in ones)
}

var verifC03Shapes = []verifC03Shape{
	{nil, 0, -1, false, false, 0},
	{[]int{1}, 0, -1, false, false, 0},
	{[]int{3}, 1, -1, false, false, 0},
	{[]int{1, 1, 1}, 0, -1, false, false, 0}, // len 3, cap 4: spare capacity in the shared array
	{[]int{1, 2}, 2, -1, true, false, 0},
	{[]int{2}, 3, 2, false, false, 0},
	{nil, 3, 1, true, false, 0},
	{[]int{1, 1, 1}, 3, 2, true, false, 0},
	{[]int{1}, 1, 1, false, false, 0},
	{nil, -3, -1, false, false, 0},
	{[]int{1, 1, 1}, -3, 1, true, false, 0},
}

func init() {
	// the same shapes once more with an OnPanic hook
	for _, k := range []int{0, 2, 5} {
		sh := verifC03Shapes[k]
		sh.onPanic = true
		verifC03Shapes = append(verifC03Shapes, sh)
	}
	// custom fallback chains (the router's own slices are what a 404/405 request runs)
	verifC03Shapes = append(verifC03Shapes,
		verifC03Shape{nil, 0, -1, true, false, 1},
		verifC03Shape{[]int{1}, 1, 1, true, false, 2})
}

type verifC03Req struct{ method, path string }

var verifC03Pairs = [][2]verifC03Req{
	{{"GET", "/s1"}, {"GET", "/s1"}},
	{{"GET", "/s1"}, {"GET", "/s2"}},
	{{"GET", "/d/1"}, {"GET", "/d/1"}},
	{{"GET", "/d/1"}, {"GET", "/d/2"}},
	{{"GET", "/nowhere"}, {"GET", "/nothing"}},
	{{"POST", "/s1"}, {"POST", "/s1"}},
	{{"HEAD", "/s1"}, {"GET", "/d/7"}},
	{{"GET", "/x7"}, {"POST", "/d/7"}},
	{{"POST", "/m"}, {"POST", "/m"}},
	{{"GET", "/d/3"}, {"GET", "/x/3"}},
	{{"GET", "/boom"}, {"GET", "/s1"}},
	{{"GET", "/boom"}, {"GET", "/boom"}},
	{{"GET", "/q/1"}, {"GET", "/s2"}},  // not found (no route has this shape) beside a matched route
	{{"GET", "/q/1"}, {"GET", "/q/2"}}, // two not-found requests
	{{"POST", "/s2"}, {"GET", "/s2"}},  // method not allowed (where enabled) beside a matched route
}

func verifC03Router(sh verifC03Shape) *Router {
	var opts []func(*Router)
	if sh.cache >= 0 {
		opts = append(opts, CachingWithNum(uint16(sh.cache)))
	}
	if sh.notAllow {
		opts = append(opts, HandleMethodNotAllowed)
	}
	r := New(opts...)
	pass := func(c *Context) { c.Next() }
	for _, n := range sh.useCalls {
		var hs []HandlerFunc
		for i := 0; i < n; i++ {
			hs = append(hs, pass)
		}
		r.Use(hs...)
	}
	var mws []HandlerFunc
	for i := 0; i < sh.routeMws; i++ {
		mws = append(mws, pass)
	}
	body := func(tag string) HandlerFunc {
		return func(c *Context) { c.WriteString(tag + ":" + c.Param("id") + c.Param("v")) }
	}
	rt := r.GET("/s1", body("s1"), mws...)
	for i := sh.routeMws; i < 0; i++ {
		rt.Use(pass)
	}
	r.GET("/s2", body("s2"))
	rtd := r.GET("/d/{id}", body("d"), mws...)
	for i := sh.routeMws; i < 0; i++ {
		rtd.Use(pass) // (spare capacity in the dynamic route's slice too)
	}
	r.GET("/{v}", body("v"))
	r.Add("/m", body("m"), "TRACE", "PUT", "DELETE", "GET")
	r.GET("/x/{id}", body("x"))
	if sh.fallback > 0 {
		var nf, na []HandlerFunc
		for i := 0; i < sh.fallback-1; i++ {
			nf, na = append(nf, pass), append(na, pass)
		}
		r.NotFound(append(nf, func(c *Context) { c.SetStatus(404); c.WriteString("custom-404") })...)
		r.NotAllowed(append(na, func(c *Context) { c.SetStatus(405); c.WriteString("custom-405") })...)
	}
	if sh.onPanic {
		r.OnPanic = func(c *Context) {
			c.SetStatus(500)
			c.WriteString("recovered:" + c.Req.URL.Path)
		}
		r.GET("/boom", verifC03Boom)
	}
	return r
}

func verifC03Serve(r *Router, q verifC03Req) (int, string) {
	rec := verifNewWriter()
	r.ServeHTTP(rec, verifRequest(q.method, q.path))
	return rec.whStatus, string(rec.body)
}

func verifHarness_C03_pairs() {
	cfg := verifCfg()
	nShapes := 16 // len(verifC03Shapes) after init
	sh := verifC03Shapes[cfg%nShapes]
	pair := verifC03Pairs[(cfg/nShapes)%len(verifC03Pairs)]
	warm := (cfg / (nShapes * len(verifC03Pairs))) % 4 // 0 none, 1 both, 2 only the first, 3 only the second
	r := verifC03Router(sh)
	// what each request produces when it is the only request
	soloA1, soloA2 := verifC03Serve(verifC03Router(sh), pair[0])
	soloB1, soloB2 := verifC03Serve(verifC03Router(sh), pair[1])
	// earlier traffic: fills the cache (so that one request can hit while the
	// other misses and evicts), triggers lazy initialisations
	if warm == 1 || warm == 2 {
		verifC03Serve(r, pair[0])
	}
	if warm == 1 || warm == 3 {
		verifC03Serve(r, pair[1])
	}
	if verifSymbolic() {
		verifShare(r)
		verifThread(1)
		a1, a2 := verifC03Serve(r, pair[0])
		verifThread(2)
		b1, b2 := verifC03Serve(r, pair[1])
		verifThread(0)
		verifAssert(a1 == soloA1 && a2 == soloA2 && b1 == soloB1 && b2 == soloB2, "served one after the other, both requests answer as they do alone")
		verifRaceCheck()
		verifCover("C03 pair analysed")
		return
	}
	// native: real goroutines, many rounds
	bad := false
	var mu sync.Mutex
	for round := 0; round < 300 && !bad; round++ {
		var wg sync.WaitGroup
		for k := 0; k < 2; k++ {
			k := k
			wg.Add(1)
			go func() {
				defer wg.Done()
				st, body := verifC03Serve(r, pair[k])
				ok := (k == 0 && st == soloA1 && body == soloA2) || (k == 1 && st == soloB1 && body == soloB2)
				if !ok {
					mu.Lock()
					bad = true
					mu.Unlock()
				}
			}()
		}
		wg.Wait()
	}
	verifAssert(!bad, "every concurrently served request answers exactly as it does alone")
	// many requests in flight for a while: every one of them is answered (a watchdog tells a hang)
	finished := make(chan struct{})
	go func() {
		var wg sync.WaitGroup
		for g := 0; g < 8; g++ {
			g := g
			wg.Add(1)
			go func() {
				defer wg.Done()
				for n := 0; n < 1500; n++ {
					q := pair[(g+n)%2]
					if n%7 == 3 {
						q.path += "x" // other paths too: misses that store, evictions
					}
					verifC03Serve(r, q)
				}
			}()
		}
		wg.Wait()
		close(finished)
	}()
	select {
	case <-finished:
	case <-time.After(25 * time.Second):
		verifAssert(false, "every concurrently served request is answered: none blocks forever")
	}
	_ = http.StatusOK
}
