package rux

// C08 — exactly one header commit per request, with the status set before
// the body.

import (
	"context"
	"io"
	"net/http"
)


// Cross-check by sequences through a real one-handler request.
func verifHarness_C08_sequence() {
	r := New()
	K := verifParam("K")
	lastPositive := 0
	firstCommit := -1
	var want []byte
	r.GET("/x", func(c *Context) {
		for k := 0; k < K; k++ {
			switch verifChoice("op", 6) {
			case 5:
				// the request's context ends (client gone, or a timeout middleware's deferred cancel):
				// whatever status is pending is still committed exactly once
				ctx, cancel := context.WithCancel(c.Req.Context())
				cancel()
				c.Req = c.Req.WithContext(ctx)
			case 4:
				// a body that arrives through io.Copy from a plain reader
				b := []byte{byte('A' + k)}
				_, _ = io.Copy(c.Resp, &verifPlainReader{data: b})
				want = append(want, b...)
				if firstCommit < 0 {
					firstCommit = lastPositive
				}
			case 0:
				code := verifInt("code")
				c.SetStatus(code)
				if firstCommit < 0 && code > 0 {
					lastPositive = code
				}
			case 1:
				b := []byte{byte('a' + k)}
				c.WriteBytes(b)
				want = append(want, b...)
				if firstCommit < 0 {
					firstCommit = lastPositive
				}
			case 2:
				c.Resp.(http.Flusher).Flush()
				if firstCommit < 0 {
					firstCommit = lastPositive
				}
			case 3:
				c.SetHeader("X-K", "v")
			}
		}
	})
	rec := verifNewWriter()
	r.ServeHTTP(rec, verifRequest("GET", "/x"))
	if firstCommit < 0 {
		firstCommit = lastPositive
	}
	if firstCommit == 0 {
		firstCommit = 200
	}
	verifAssert(rec.whCalls == 1, "exactly one WriteHeader per request")
	verifAssert(rec.whStatus == firstCommit, "the header carries the last positive status set before the first write or flush (200 if none)")
	verifAssert(rec.preCommit == 0, "no body byte or flush before the header")
	verifAssert(string(rec.body) == string(want), "the body is the concatenation of all writes in order")
	verifCover("C08 sequence")
}


// The commit rule also holds on the panic path: with an OnPanic hook the
// header carries the last positive status set before the first write - the
// hook's status when the panic happened before any write.
func verifHarness_C08_panicCommit() {
	r := New()
	pre := verifInt("preStatus")
	hookCode := verifInt("hookStatus")
	verifAssume(verifAnd(hookCode >= 100, hookCode <= 599))
	wroteBefore := verifChoice("wroteBefore", 2) == 1
	hookWrites := verifChoice("hookWrites", 2) == 1
	r.OnPanic = func(c *Context) {
		c.SetStatus(hookCode)
		if hookWrites {
			c.WriteString("E")
		}
	}
	r.GET("/x", func(c *Context) {
		c.SetStatus(pre)
		if wroteBefore {
			c.WriteString("a")
		}
		panic("boom")
	})
	rec := verifNewWriter()
	r.ServeHTTP(rec, verifRequest("GET", "/x"))
	want := hookCode
	if wroteBefore {
		want = 200
		if pre > 0 {
			want = pre
		}
	}
	verifAssert(rec.whCalls == 1, "exactly one WriteHeader also when a handler panics")
	verifAssert(rec.whStatus == want, "the header carries the last positive status set before the first write (the hook's status if nothing was written before the panic)")
	verifAssert(rec.preCommit == 0, "no body byte before the header")
	verifCover("C08 panic commit")
}


// A rux handler mounted inside another rux handler (WrapHTTPHandler around a
// HandlerFunc or a router): the inner one answers through the outer request's
// writer, so there is still exactly one header commit, with the inner status,
// and the outer context knows about it.
func verifHarness_C08_nested() {
	code := verifInt("code")
	verifAssume(verifAnd(code >= 100, code <= 599))
	write := verifChoice("innerWrites", 2) == 1
	viaRouter := verifChoice("innerKind", 2) == 1
	// (a bare HandlerFunc used as an http.Handler has no end-of-request commit of its own:
	// a status it only records is not sent - see DESIGN 7.4 - so it writes here)
	verifAssume(write || viaRouter)
	var inner http.Handler = HandlerFunc(func(c *Context) {
		c.SetStatus(code)
		if write {
			c.WriteString("in")
		}
	})
	if viaRouter {
		sub := New()
		sub.GET("/x", func(c *Context) {
			c.SetStatus(code)
			if write {
				c.WriteString("in")
			}
		})
		inner = sub
	}
	outer := New()
	outerStatus, outerWritten := 0, false
	outer.Use(func(c *Context) {
		c.Next()
		outerStatus, outerWritten = c.StatusCode(), c.writer.Written()
	})
	outer.GET("/x", WrapHTTPHandler(inner))
	rec := verifNewWriter()
	k := verifCatch(func() { outer.ServeHTTP(rec, verifRequest("GET", "/x")) })
	verifAssert(k == "", "serving through a nested rux handler does not panic")
	verifAssert(rec.whCalls == 1 && rec.whStatus == code, "exactly one WriteHeader reaches the underlying writer, with the inner handler's status")
	verifAssert(rec.preCommit == 0, "no body byte before the header")
	if write {
		verifAssert(string(rec.body) == "in", "the inner body is the response body")
		verifAssert(outerWritten && outerStatus == code, "the outer context sees the commit and the status")
	}
	verifCover("C08 nested rux handler")
}
