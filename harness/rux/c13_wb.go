package rux

// C13, white-box part: the optional-part syntax check, driven directly with a
// symbolic pattern text (registration itself would have to compile a symbolic
// regular expression).

// checkAndParseOptional accepts a pattern with balanced brackets exactly when
// all its ']' form one run at the very end (every optional part extends to the
// end of the pattern).
func verifHarness_C13_optionalSyntax() {
	n := verifLen("plen", 1, verifParam("L"))
	s := verifString("tail", n)
	verifAssume(verifAlphabet(s, "[]/b"))
	p := "/a" + s
	// only bracket structures that are balanced (every ']' closes a '[', every '[' is closed) are
	// judged here: for anything else the regular expression built from the pattern does not compile
	// and registration fails for that reason
	opens, depth := 0, 0
	seenClose, tailOnly := false, true
	for i := 0; i < len(p); i++ {
		switch {
		case p[i] == '[':
			opens++
			depth++
			if seenClose {
				tailOnly = false
			}
		case p[i] == ']':
			depth--
			verifAssume(depth >= 0)
			seenClose = true
		default:
			if seenClose {
				tailOnly = false
			}
		}
	}
	verifAssume(opens > 0 && depth == 0)
	well := tailOnly
	k := verifCatch(func() { _ = checkAndParseOptional(p) })
	verifAssert(k != "runtime", "the syntax check itself never fails with a run-time error")
	if well {
		verifAssert(k == "", "optional parts nested at the end are accepted")
		verifCover("C13 optional syntax accepted")
	} else {
		verifAssert(k == "panic", "an optional part that is not at the end is rejected")
		verifCover("C13 optional syntax rejected")
	}
}
