package rux

// C12 — groups add prefix and middleware to their own routes and leave no
// residue.

type verifIDs struct{ out []int }

// verifIDHandlers makes n handlers that, when called, record their id.
func (v *verifIDs) mk(next *int, n int, spare int) ([]HandlerFunc, []int) {
	hs := make([]HandlerFunc, 0, n+spare)
	var ids []int
	for i := 0; i < n; i++ {
		*next++
		id := *next
		ids = append(ids, id)
		// a method value: every handler made here is the same code (and has the same function name)
		hs = append(hs, (&verifIDH{v, id}).Handle)
	}
	return hs, ids
}

type verifIDH struct {
	v  *verifIDs
	id int
}

func (h *verifIDH) Handle(c *Context) { h.v.out = append(h.v.out, h.id) }

func (v *verifIDs) of(hs HandlersChain) []int {
	v.out = nil
	for _, h := range hs {
		h(nil)
	}
	return v.out
}

type verifCtl struct {
	v    *verifIDs
	next *int
	reg  func(path string, rt *Route)
}

func (c *verifCtl) AddRoutes(r *Router) {
	c.reg("/c1", r.GET("/c1", verifNop))
	c.reg("/c2", r.POST("/c2", verifNop))
}

func verifLetters(label string, lo, hi int) string {
	n := verifLen(label+"_len", lo, hi)
	s := verifString(label, n)
	for i := 0; i < n; i++ {
		verifAssume(verifAnd(s[i] >= 'a', s[i] <= 'z'))
	}
	return s
}

func verifHarness_C12_groups() {
	cfg := verifCfg()
	dig := func(base int) int { d := cfg % base; cfg /= base; return d }
	c := dig(3)     // middleware of G1
	spare := dig(2) // G1's variadic slice has spare capacity
	d := dig(2)     // route middleware of P1
	f := dig(2)     // Use inside G1
	i := dig(2)     // middleware of nested G2
	j := dig(3)     // middleware of sibling G3
	k := dig(2)     // middleware of the controller group
	slash := dig(3) // spelling of the prefixes: "/x", "x", "/x/"
	u2 := dig(2)    // a second Use in G1, after its nested groups have returned
	rootg := dig(3) // a top-level group whose prefix is the root: none, "", "/"

	v := &verifIDs{}
	next := 0
	r := New()
	spell := func(s string) string {
		switch slash {
		case 1:
			return s
		case 2:
			return "/" + s + "/"
		}
		return "/" + s
	}
	g1 := verifLetters("g1", 1, 2)
	g2 := verifLetters("g2", 1, 1)
	type reg struct {
		rt   *Route
		path string
		ids  []int
	}
	var regs []reg
	add := func(rt *Route, path string, ids ...[]int) {
		regs = append(regs, reg{rt, path, verifCat(ids...)})
	}
	residue := true
	checkRestored := func(prefix string, n int, ids []int) {
		// (a look at the router's registration state itself, when the probe is available;
		// the routes registered afterwards check the same thing from outside)
		if verifGroupState == nil {
			return
		}
		curPrefix, curHandlers := verifGroupState(r)
		residue = verifAnd(residue, curPrefix == prefix)
		residue = verifAnd(residue, len(curHandlers) == n)
		if len(curHandlers) == n {
			residue = verifAnd(residue, verifSameInts(v.of(curHandlers), ids))
		}
	}

	add(r.GET("/p0", verifNop), "/p0")
	gh, gids := v.mk(&next, c, spare*2)
	r.Group(spell(g1), func() {
		p1h, p1 := v.mk(&next, d, 0)
		add(r.GET("/p1", verifNop, p1h...), "/"+g1+"/p1", gids, p1)
		inh, inner := v.mk(&next, f, 0)
		r.Use(inh...)
		in1 := verifCat(gids, inner)
		add(r.GET("p2", verifNop), "/"+g1+"/p2", in1)
		hh, hids := v.mk(&next, i, 1)
		r.Group(spell(g2), func() {
			add(r.GET("/p3/", verifNop), "/"+g1+"/"+g2+"/p3", in1, hids)
		}, hh...)
		checkRestored("/"+g1, len(in1), in1)
		add(r.GET("/p4", verifNop), "/"+g1+"/p4", in1)
		// a pre-built route that already carries its own middleware
		p8h, p8 := v.mk(&next, 1+d, 0)
		add(r.AddRoute(NewRoute("/p8", verifNop, "GET").Use(p8h...)), "/"+g1+"/p8", in1, p8)
		jh, jids := v.mk(&next, j, 0)
		r.Group("/s", func() {
			add(r.GET("/p5", verifNop), "/"+g1+"/s/p5", in1, jids)
		}, jh...)
		checkRestored("/"+g1, len(in1), in1)
		// Use after nested groups have come and gone still belongs to G1
		u2h, u2ids := v.mk(&next, u2, 0)
		r.Use(u2h...)
		in2 := verifCat(in1, u2ids)
		add(r.GET("/p9", verifNop), "/"+g1+"/p9", in2)
	}, gh...)
	checkRestored("", 0, nil)
	add(r.GET("/p6", verifNop), "/p6")
	if rootg > 0 {
		// a group on the root prefix adds nothing to the paths, but is a group all the same
		rh, rids := v.mk(&next, 1, 0)
		r.Group([]string{"", "", "/"}[rootg], func() {
			ruh, ruids := v.mk(&next, 1, 0)
			r.Use(ruh...)
			add(r.GET("/q1", verifNop), "/q1", rids, ruids)
			r.Group("/n", func() {
				add(r.GET("/q2", verifNop), "/n/q2", rids, ruids)
			})
			add(r.GET("/q3", verifNop), "/q3", rids, ruids)
		}, rh...)
		checkRestored("", 0, nil)
	}
	kh, kids := v.mk(&next, k, 0)
	ctl := &verifCtl{v: v, next: &next}
	ctl.reg = func(path string, rt *Route) { add(rt, "/ctl"+path, kids) }
	r.Controller("/ctl", ctl, kh...)
	checkRestored("", 0, nil)
	add(r.GET("/p7", verifNop), "/p7")
	// a group without middleware of its own that calls Use, then the caller's middleware list of
	// G1 passed to another group: the list is the caller's, nothing the router did may have changed it
	puh, puids := v.mk(&next, 1, 0)
	r.Group("/pub", func() {
		r.Use(puh...)
		add(r.GET("/p10", verifNop), "/pub/p10", puids)
	})
	checkRestored("", 0, nil)
	r.Group("/again", func() {
		add(r.GET("/p11", verifNop), "/again/p11", gids)
	}, gh...)
	checkRestored("", 0, nil)

	verifAssert(len(r.Handlers()) == 0, "middleware added inside a group never lands in the router's global chain")
	verifAssert(residue, "when Group returns, the prefix and group middleware in effect are what they were before the call")
	okPath, okMw := true, true
	for _, x := range regs {
		okPath = verifAnd(okPath, x.rt.Path() == x.path)
		okMw = verifAnd(okMw, verifSameInts(v.of(x.rt.Handlers()), x.ids))
	}
	verifAssert(okPath, "every route is registered under the concatenated prefixes of its enclosing groups")
	verifAssert(okMw, "every route carries exactly the middleware of its enclosing groups in effect at registration, then its own (also after later registrations)")
	// reachability probe
	t := verifChoice("probe", len(regs)+1)
	var probe string
	if t < len(regs) {
		probe = regs[t].path
	} else {
		probe = verifNormalPath("probe", 8)
	}
	m := "GET"
	if t < len(regs) && regs[t].path == "/ctl/c2" {
		m = "POST"
	}
	got, _, _ := r.QuickMatch(m, probe)
	if t < len(regs) {
		verifAssert(got == regs[t].rt, "the route is reachable under its full path")
	} else {
		hit := false
		for _, x := range regs {
			if x.path != "/ctl/c2" {
				hit = verifOr(hit, x.path == probe)
			}
		}
		verifAssert(verifIff(got != nil, hit), "nothing is reachable outside the concatenated prefixes")
	}
	verifCover("C12 program run")
}
