package rux

// C05, white-box part: one Next() step from an arbitrary cursor state (names
// unexported fields of Context).

// One step of Next() from an arbitrary cursor state (symbolic int8): exactly
// the handlers after the cursor run, once, in order; none when the cursor is
// parked at or beyond the abort sentinel.
func verifHarness_C05_nextStep() {
	n := verifChoice("n", 6)
	c := &Context{}
	ran := make([]int, n)
	var order []int
	bad := false
	hs := make(HandlersChain, n)
	for i := range hs {
		i := i
		hs[i] = func(c *Context) {
			ran[i]++
			order = append(order, i)
			if c.index != int8(i) {
				bad = true
			}
		}
	}
	c.handlers = hs
	idx := verifInt8("index")
	verifAssume(verifAnd(idx >= -1, idx <= 100)) // 101..127 are only reachable through the known cursor overflow (D8)
	c.index = idx
	k := verifCatch(func() { c.Next() })
	verifAssert(k == "", "Next() does not panic from any valid cursor state")
	ok := true
	for i := 0; i < n; i++ {
		should := int8(i) > idx
		ok = verifAnd(ok, verifIff(ran[i] == 1, should))
		ok = verifAnd(ok, verifIff(ran[i] == 0, verifNot(should)))
	}
	verifAssert(ok, "exactly the handlers after the cursor run, each once")
	inOrder := true
	for j := 1; j < len(order); j++ {
		if order[j] != order[j-1]+1 {
			inOrder = false
		}
	}
	verifAssert(inOrder && !bad, "they run in chain order with the cursor at their own position")
	verifAssert(c.index >= int8(n), "the cursor ends at or beyond the end of the chain")
	if idx >= abortIndex {
		verifAssert(len(order) == 0, "nothing runs once the cursor is parked at the abort sentinel")
		verifCover("C05 aborted cursor")
	}
	verifCover("C05 next step")
}
