package rux

import "net/http"

// C10, white-box part: a request served by a context in an arbitrary dirty
// state (constructed through unexported fields of Context and responseWriter).

func init() {
	verifObsInternals = func(o *verifObs, c *Context) {
		if w, ok := c.Resp.(*responseWriter); ok {
			o.ownResp = w == &c.writer
		}
		o.index = c.index
	}
}

func verifHarness_C10_dirtyContext() {
	r := New(HandleMethodNotAllowed)
	o := &verifObs{}
	obs := verifObserveCtx(o)
	r.GET("/s", obs)
	r.GET("/d/{id}", obs)
	r.NotFound(obs)
	r.NotAllowed(obs)

	// a context in an arbitrary dirty state, as an earlier request may leave it
	ctx := r.ctxPool.Get().(*Context)
	prevRec := verifNewWriter()
	ctx.Init(prevRec, verifRequest("POST", "/old"))
	staleRan := false
	stale := func(c *Context) { staleRan = true }
	ctx.index = verifInt8("index")
	if verifBool("hasData") {
		ctx.Set("stale", "v")
		ctx.Set(CTXAllowedMethods, []string{"PUT"})
		ctx.Set(CTXRecoverResult, "boom")
	}
	if verifBool("hasParams") {
		ctx.Params = Params{"id": "old", "zz": "1"}
	}
	for i := verifChoice("nerr", 3); i > 0; i-- {
		ctx.AddError(verifErr{})
	}
	nh := verifChoice("nh", 4)
	hs := make(HandlersChain, nh, 5)
	for i := range hs {
		hs[i] = stale
	}
	ctx.handlers = hs
	ctx.writer.status = verifInt("status")
	ctx.writer.length = verifInt("length")
	if verifBool("foreignResp") {
		ctx.Resp = verifNewWriter()
	}
	if verifBool("foreignReq") {
		ctx.Req = verifRequest("PUT", "/other")
	}
	r.ctxPool.Put(ctx)

	kind := verifChoice("req", 4)
	rec := verifNewWriter()
	var req *http.Request
	idLen := 0
	var idVal string
	switch kind {
	case 0:
		req = verifRequest("GET", "/s")
	case 1:
		idLen = verifLen("idlen", 1, 3)
		idVal = verifString("id", idLen)
		for i := 0; i < idLen; i++ {
			verifAssume(verifAnd(idVal[i] > 0x20, verifAnd(idVal[i] < 0x7f, idVal[i] != '/')))
		}
		req = verifRequest("GET", "/d/"+idVal)
	case 2:
		req = verifRequest("GET", "/nowhere")
	case 3:
		req = verifRequest("POST", "/s")
	}
	r.ServeHTTP(rec, req)

	verifAssert(o.seen, "the request's handler ran")
	verifAssert(!staleRan, "no handler of an earlier request runs")
	if o.ctx == ctx {
		verifCover("C10 context reused")
	}
	verifAssert(!o.hasStale, "values stored by an earlier request are gone")
	switch kind {
	case 0, 1:
		verifAssert(o.nData == 2 && o.hasName && o.hasPath && !o.hasAllow, "context data holds only what dispatch set for this request")
	case 2:
		verifAssert(o.nData == 0, "context data is empty for a not-found request")
	case 3:
		verifAssert(o.nData == 1 && o.hasAllow, "context data holds only the allowed methods of this request")
	}
	if kind == 1 {
		verifAssert(o.nParams == 1 && !o.stale, "Params holds exactly this request's variables")
		verifAssert(o.id == idVal, "Params carries this request's value")
	} else {
		verifAssert(o.nParams == 0, "no parameters from an earlier request")
	}
	verifAssert(o.nErrors == 0, "no errors from an earlier request")
	verifAssert(!o.aborted, "not aborted")
	verifAssert(o.index == 0, "the chain cursor points at the first handler")
	verifAssert(o.status == 0, "StatusCode() starts at 0")
	verifAssert(o.length == -1, "Length() starts at 'not written'")
	verifAssert(o.ownResp, "Resp is the context's own writer")
	verifAssert(o.req == req, "Req is the new request")
	verifAssert(o.raw == http.ResponseWriter(rec), "the writer wraps the new underlying writer")
	verifAssert(rec.whCalls == 1 && prevRec.whCalls == 0, "the response goes to the new writer only, committed once")
}

// HandleContext re-dispatches a context a handler already used: everything
// request-scoped except the writer must be reset before the new dispatch.
func verifHarness_C10_handleContext() {
	r := New()
	o := &verifObs{}
	r.GET("/d/{id}", verifObserveCtx(o))
	ctx := r.ctxPool.Get().(*Context)
	rec := verifNewWriter()
	req := verifRequest("GET", "/d/7")
	ctx.Init(rec, req)
	ctx.index = verifInt8("index")
	if verifBool("hasData") {
		ctx.Set("stale", "v")
	}
	if verifBool("hasParams") {
		ctx.Params = Params{"id": "old", "zz": "1"}
	}
	for i := verifChoice("nerr", 3); i > 0; i-- {
		ctx.AddError(verifErr{})
	}
	staleRan := false
	ctx.handlers = HandlersChain{func(c *Context) { staleRan = true }}
	r.HandleContext(ctx)
	verifAssert(o.seen && !staleRan, "the re-dispatched context runs the matched route's handlers only")
	verifAssert(!o.hasStale && o.nData == 2, "context data holds only what this dispatch set")
	verifAssert(o.nParams == 1 && o.id == "7" && !o.stale, "Params holds exactly this request's variables")
	verifAssert(o.nErrors == 0 && !o.aborted && o.index == 0, "errors, abort state and cursor are reset")
	verifAssert(o.ownResp && o.req == req, "the context keeps its request and its own writer")
	verifCover("C10 HandleContext")
}
