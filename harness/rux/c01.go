package rux

// C01 — route selection follows the documented pattern semantics.

var verifPatPool = []string{
	// static
	"/a", "/a/b", "/v1.0", "/a.b",
	// dynamic with a complete literal first segment followed by '/'
	"/a/{v}", `/a/{v:\d+}`, "/a/{v}/b", "/a/{v}.x", "/ab/{v:[a-z]+}", "/v1.0/{v}", "/a/b{v}", "/a/{v}/{w}", "/a/b[/{v}]",
	// other dynamic
	"/{v}", "/{v}/b", `/{v:\d+}`, "/x{v}", "/{num}", "/{all}", "/{v}.x", "/a[/{v}[/{w}]]", "/{v}[.x]", "/ab[/x]", "/{any}/a", "/a[/{v}]",
}

var verifMethodSets = [][]string{
	{"GET"}, {"POST"}, {"GET", "POST"}, {"HEAD"},
	{"GET", "POST", "PUT", "PATCH", "DELETE", "OPTIONS", "HEAD", "CONNECT", "TRACE"}, {"DELETE", "PUT"},
}

// (the last one is not a method name at all, only the beginning of one: no route is registered for it)
var verifReqMethods = []string{"GET", "POST", "HEAD", "DELETE", "BREW", "GE"}

type verifRouteDef struct {
	pat     string
	methods []string
}

func verifNop(c *Context) {}

// verifTable decodes a configuration index into a route table: indices
// 0..P-1 are the one-route tables, then all ordered pairs, then triples.
func verifTable(cfg int) []verifRouteDef {
	P := len(verifPatPool)
	M := len(verifMethodSets)
	h := cfg*7 + 3
	pick := func(k int) []string { return verifMethodSets[(h/(k+1)+k)%M] }
	if cfg < P {
		return []verifRouteDef{{verifPatPool[cfg], pick(0)}}
	}
	cfg -= P
	if cfg < P*P {
		return []verifRouteDef{{verifPatPool[cfg%P], pick(0)}, {verifPatPool[cfg/P], pick(1)}}
	}
	cfg -= P * P
	return []verifRouteDef{{verifPatPool[cfg%P], pick(0)}, {verifPatPool[(cfg/P)%P], pick(1)}, {verifPatPool[(cfg/(P*P))%P], pick(2)}}
}

// verifTableOK enforces the property's side condition: no two static routes
// with the same method and path.
func verifTableOK(defs []verifRouteDef) bool {
	for i := range defs {
		for j := i + 1; j < len(defs); j++ {
			if defs[i].pat == defs[j].pat && verifIsStaticPattern(defs[i].pat) {
				for _, m := range defs[i].methods {
					if verifHasMethod(defs[j].methods, m) {
						return false
					}
				}
			}
		}
	}
	return true
}

// verifNormalPath: a symbolic request path already in normal form.
func verifNormalPath(label string, L int) string {
	return verifNormalPathN(label, verifLen(label+"_len", 1, L))
}

func verifNormalPathN(label string, n int) string {
	p := verifString(label, n)
	verifAssume(p[0] == '/')
	if n > 1 {
		verifAssume(p[1] != '/')
		last := p[n-1]
		verifAssume(last != '/')
		// not the tail of a white-space rune (bound: last byte in 0x21..0x7f or >= 0xb0)
		verifAssume(verifOr(verifAnd(last > 0x20, last < 0x80), last >= 0xB0))
	}
	return p
}

// verifBetter: does route i take precedence over route j?
func verifBetter(defs []verifRouteDef, i, j int) bool {
	ti, tj := verifSpecTier(defs[i].pat), verifSpecTier(defs[j].pat)
	if ti != tj {
		return ti < tj
	}
	return i < j
}

// verifWinnerIs: under method m, is g the specified winner (g = -1: none)?
func verifWinnerIs(defs []verifRouteDef, m string, p string, g int) bool {
	ok := true
	for i := range defs {
		q := verifAnd(verifHasMethod(defs[i].methods, m), verifSpecMatches(defs[i].pat, p))
		if i == g {
			ok = verifAnd(ok, q)
		} else if g < 0 || verifBetter(defs, i, g) {
			ok = verifAnd(ok, verifNot(q))
		}
	}
	return ok
}

func verifBuildTable(r *Router, defs []verifRouteDef) []*Route {
	routes := make([]*Route, len(defs))
	for i, d := range defs {
		routes[i] = r.Add(d.pat, verifNop, d.methods...)
	}
	return routes
}

func verifRouteIndex(routes []*Route, got *Route) int {
	for i := range routes {
		if got == routes[i] {
			return i
		}
	}
	return -1
}

func verifHarness_C01_select() {
	defs := verifTable(verifCfg())
	verifAssume(verifTableOK(defs))
	r := New()
	routes := verifBuildTable(r, defs)
	m := verifReqMethods[verifChoice("method", len(verifReqMethods))]
	p := verifNormalPath("p", verifParam("L"))
	var got *Route
	if verifParam("viaMatch") == 1 && verifChoice("viaMatch", 2) == 1 {
		// the public Match accepts any spelling of the method name
		got, _, _ = r.Match(verifLowerASCII(m), p)
	} else {
		got, _, _ = r.QuickMatch(m, p)
	}
	g := verifRouteIndex(routes, got)
	verifAssert(verifOr(got == nil, g >= 0), "the returned route is a registered route")
	direct := verifWinnerIs(defs, m, p, g)
	if m == "HEAD" {
		viaGet := verifAnd(verifWinnerIs(defs, "HEAD", p, -1), verifWinnerIs(defs, "GET", p, g))
		verifAssert(verifOr(direct, viaGet), "selected route is the specified winner (HEAD falls back to GET)")
	} else {
		verifAssert(direct, "selected route is the specified winner")
	}
	if g >= 0 {
		verifCover("C01 route selected")
	} else {
		verifCover("C01 no route")
	}
	verifObserve("winner", g)
}


func verifLowerASCII(s string) string {
	b := []byte(s)
	for i := range b {
		if b[i] >= 'A' && b[i] <= 'Z' && i%2 == 0 {
			b[i] += 32
		}
	}
	return string(b)
}

// Strict trailing-slash mode with dynamic routes: "/a/{v}" and "/a/{v}/" are
// different routes, each reached only by its own spelling.
func verifHarness_C01_strictDynamic() {
	tables := [][]verifRouteDef{
		{{"/a/{v}", []string{"GET"}}, {"/a/{v}/", []string{"GET"}}},
		{{"/a/{v}/", []string{"GET"}}, {"/a/{v}", []string{"GET"}}},
		{{"/{v}/", []string{"GET"}}, {"/a/", []string{"GET"}}, {"/a", []string{"GET"}}},
		{{"/a[/{v}]", []string{"GET"}}, {"/a/", []string{"POST"}}},
	}
	defs := tables[verifCfg()%len(tables)]
	r := New(StrictLastSlash)
	routes := verifBuildTable(r, defs)
	for i, d := range defs {
		verifAssert(routes[i].Path() == d.pat, "strict mode keeps the registered spelling")
	}
	m := []string{"GET", "POST"}[verifChoice("method", 2)]
	n := verifLen("p_len", 1, verifParam("L"))
	p := verifString("p", n)
	verifAssume(p[0] == '/')
	if n > 1 {
		verifAssume(p[1] != '/')
		last := p[n-1]
		verifAssume(verifOr(verifAnd(last > 0x20, last < 0x80), last >= 0xB0)) // a trailing '/' is allowed here
	}
	got, _, _ := r.QuickMatch(m, p)
	g := verifRouteIndex(routes, got)
	verifAssert(verifWinnerIs(defs, m, p, g), "in strict mode the selected route is the specified winner for the exact spelling")
	if g >= 0 {
		verifCover("C01 strict route selected")
	}
}

// Route selection does not depend on what the router was asked before: after
// an arbitrary earlier request (same router, any path), the winner for p is
// still the specified one.  Tables of two or three overlapping dynamic routes
// that share their first segment (where a self-reordering list would show).
var verifC01HistoryTables = [][]verifRouteDef{
	{{`/u/{v:[a-z0-9]+}`, []string{"GET"}}, {`/u/{w:[a-z0-9-]+}`, []string{"GET"}}},
	{{`/u/{v:\d+}`, []string{"GET"}}, {"/u/{w}", []string{"GET"}}, {"/u/{x}/y", []string{"GET"}}},
	{{"/{v}/a", []string{"GET"}}, {"/{w}/{x}", []string{"GET"}}},
	{{`/u/{v:[a-z]+}`, []string{"GET", "POST"}}, {"/u/{w}", []string{"POST"}}, {"/u/{x}", []string{"GET"}}},
}

func verifHarness_C01_history() {
	cfg := verifCfg()
	defs := verifC01HistoryTables[cfg%len(verifC01HistoryTables)]
	cached := (cfg/len(verifC01HistoryTables))%2 == 1
	var r *Router
	if cached {
		r = New(EnableCaching)
	} else {
		r = New()
	}
	routes := verifBuildTable(r, defs)
	n := verifLen("n", 3, verifParam("L"))
	// earlier requests: two of them, same length as p (so that "the same path" is one of the cases)
	for k := 0; k < 2; k++ {
		q := verifNormalPathN("q", n)
		r.QuickMatch("GET", q)
	}
	m := []string{"GET", "POST"}[verifChoice("method", 2)]
	p := verifNormalPathN("p", n)
	got, _, _ := r.QuickMatch(m, p)
	g := -1
	if got != nil {
		// (a caching router answers with a copy: identify the route by its pattern and methods)
		for i, rt := range routes {
			if rt.Path() == got.Path() && verifSameStrings(rt.Methods(), got.Methods()) {
				g = i
			}
		}
	}
	verifAssert(verifOr(got == nil, g >= 0), "the returned route is a registered route")
	verifAssert(verifWinnerIs(defs, m, p, g), "the selected route is the specified winner whatever was requested before")
	verifCover("C01 selection after earlier requests")
}
