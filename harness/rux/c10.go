package rux

// C10 — every request starts from a pristine context whatever happened
// before.  The pooled context handed to the next request has every field
// havocked (any state an earlier request can leave behind is an instance);
// the first handler of the new request must observe a pristine context.

import (
	"io"
	"net/http"
)

type verifObs struct {
	seen     bool
	ctx      *Context
	nData    int
	hasName  bool
	hasPath  bool
	hasAllow bool
	hasStale bool
	nParams  int
	id       string
	stale    bool
	nErrors  int
	aborted  bool
	status   int
	length   int
	ownResp  bool
	req      *http.Request
	raw      http.ResponseWriter
	index    int8
}

// verifObsInternals fills the fields of an observation that name unexported
// parts of Context (set by c10_wb.go; nil when that file is left out).
var verifObsInternals func(o *verifObs, c *Context)

func verifObserveCtx(o *verifObs) HandlerFunc {
	return func(c *Context) {
		if o.seen {
			return
		}
		o.seen = true
		o.ctx = c
		o.nData = len(c.Data())
		_, o.hasName = c.Get(CTXCurrentRouteName)
		_, o.hasPath = c.Get(CTXCurrentRoutePath)
		_, o.hasAllow = c.Get(CTXAllowedMethods)
		_, o.hasStale = c.Get("stale")
		o.nParams = len(c.Params)
		o.id = c.Param("id")
		o.stale = c.Params.Has("zz")
		o.nErrors = len(c.Errors)
		o.aborted = c.IsAborted()
		o.status = c.StatusCode()
		o.length = c.Length()
		// (without the white-box probe these two are not observable and keep their pristine values)
		o.ownResp, o.index = true, 0
		if verifObsInternals != nil {
			verifObsInternals(o, c)
		}
		o.req = c.Req
		o.raw = c.RawWriter()
	}
}





// Cross-check by explicit histories: K requests on one router (custom
// fallback chains whose slices have spare capacity, with or without global
// middleware); every request must answer like the same request on a freshly
// built identical router.
func verifC10Router(globals int) (*Router, *[]string) {
	var log []string
	tag := func(s string) HandlerFunc {
		return func(c *Context) { log = append(log, s+":"+c.Param("id")); c.WriteString(s) }
	}
	pass := func(c *Context) { c.Next() }
	r := New(HandleMethodNotAllowed)
	for i := 0; i < globals; i++ {
		r.Use(pass)
	}
	nf := make(HandlersChain, 0, 4)
	nf = append(nf, pass, tag("nf"))
	r.NotFound(nf...)
	na := make(HandlersChain, 0, 4)
	na = append(na, tag("na"))
	r.NotAllowed(na...)
	r.GET("/s", tag("s"), pass)
	r.GET("/d/{id}", tag("d"), pass, pass)
	r.POST("/p", tag("p"))
	// a handler that writes through c.Resp and, like most code, does not look at the error
	r.GET("/w", func(c *Context) {
		_, _ = c.Resp.Write([]byte("w1"))
		_, _ = c.Resp.Write([]byte("w2"))
		log = append(log, "w")
	})
	// a connection upgrade: the handler takes the connection over
	r.GET("/h", func(c *Context) {
		if hj, ok := c.Resp.(http.Hijacker); ok {
			_, _, err := hj.Hijack()
			log = append(log, "h:"+verifBoolStr(err == nil))
		}
	})
	// a streamed answer: written and flushed, twice
	r.GET("/f", func(c *Context) {
		c.WriteString("f1")
		c.Resp.(http.Flusher).Flush()
		c.WriteString("f2")
		c.Resp.(http.Flusher).Flush()
		log = append(log, "f")
	})
	// template rendering: a page that renders, and one whose template fails half way through
	r.Renderer = verifC10Renderer{}
	r.GET("/t", func(c *Context) {
		err := c.Render(200, "ok", nil)
		log = append(log, "t:"+verifBoolStr(err == nil))
	})
	r.GET("/tbad", func(c *Context) {
		err := c.Render(200, "bad", nil)
		log = append(log, "tbad:"+verifBoolStr(err == nil))
		c.WriteString("fallback")
	})
	// a handler that edits the query values it was given (to build a "next page" link, say)
	r.GET("/q", func(c *Context) {
		q := c.QueryValues()
		log = append(log, "q:"+c.Query("page")+","+c.Query("size", "-")+","+q.Get("page"))
		q.Set("page", "2")
		q.Del("size")
		c.WriteString("q")
	})
	// a handler that hands a copy of its context (and its data map) to something that outlives the request
	r.GET("/c", func(c *Context) {
		// what outlived the earlier requests writes to what it was given, while this request is in flight
		for _, cp := range verifC10Kept {
			cp.Set("job", "done")
			// the copy's own response side: recording a status there touches no request in flight
			cp.Resp.WriteHeader(599)
			cp.SetStatus(598)
		}
		for _, d := range verifC10KeptData {
			if d != nil {
				d["job"] = "done"
			}
		}
		_, stale := c.Get("job")
		log = append(log, "c:"+verifBoolStr(stale)+verifBoolStr(len(c.Data()) > 0))
		c.Set("mine", "1")
		verifC10Kept = append(verifC10Kept, c.Copy())
		verifC10KeptData = append(verifC10KeptData, c.Data())
		c.WriteString("c")
	})
	return r, &log
}

// verifC10Renderer writes the page's opening and, for the template "bad", fails after that.
type verifC10Renderer struct{}

func (verifC10Renderer) Render(w io.Writer, name string, data any, c *Context) error {
	_, _ = w.Write([]byte("<" + name + ">"))
	if name == "bad" {
		return verifErr{}
	}
	_, _ = w.Write([]byte("</" + name + ">"))
	return nil
}

// what earlier requests handed out and may still write to
var (
	verifC10Kept     []*Context
	verifC10KeptData []map[string]any
)

func verifBoolStr(b bool) string {
	if b {
		return "1"
	}
	return "0"
}

func verifHarness_C10_history() {
	globals := verifChoice("globals", 2)
	reqs := []verifC03Req{{"GET", "/s"}, {"GET", "/d/7"}, {"GET", "/nowhere"}, {"POST", "/s"}, {"POST", "/p"}, {"GET", "/q"}, {"GET", "/c"}, {"GET", "/t"}, {"GET", "/tbad"}, {"GET", "/f"}, {"GET", "/h"}, {"GET", "/w"}, {"GET", "/w!"}}
	r, log := verifC10Router(globals)
	verifC10Kept, verifC10KeptData = nil, nil
	K := verifParam("K")
	for k := 0; k < K; k++ {
		q := reqs[verifChoice("req", len(reqs))]
		*log = nil
		// whatever outlived the earlier requests writes to what it was given
		for _, cp := range verifC10Kept {
			cp.Set("job", "done")
		}
		for _, d := range verifC10KeptData {
			if d != nil {
				d["job"] = "done"
			}
		}
		// the client of this request may be gone: its writer refuses every write (a handler that
		// insists on writing then panics, which the caller sees); later requests are not affected
		dead := q.path == "/w!"
		if dead {
			q.path = "/w"
		}
		rec := verifNewWriter()
		rec.refuse = dead
		kr := verifCatch(func() { r.ServeHTTP(rec, verifRequestQ(q.method, q.path, "page=1&size=10")) })
		got := *log
		keptN := len(verifC10Kept)
		fresh, flog := verifC10Router(globals)
		frec := verifNewWriter()
		frec.refuse = dead
		kf := verifCatch(func() { fresh.ServeHTTP(frec, verifRequestQ(q.method, q.path, "page=1&size=10")) })
		verifAssert(kr == kf, "a request ends (returns or panics) as it does on a fresh router")
		verifC10Kept, verifC10KeptData = verifC10Kept[:keptN], verifC10KeptData[:keptN]
		same := len(got) == len(*flog) && rec.whStatus == frec.whStatus && string(rec.body) == string(frec.body) && rec.flushes == frec.flushes && rec.whCalls == frec.whCalls
		if same {
			for i := range got {
				if got[i] != (*flog)[i] {
					same = false
				}
			}
		}
		verifAssert(same, "the k-th request of a history answers exactly like the first request on a fresh identical router")
	}
	verifCover("C10 history")
}
