package rux

// C05 — Abort stops every later handler and only later handlers.

type verifAbortState struct {
	tr        verifTrace
	aborted   bool // ghost: an abort call has happened
	badFlag   bool // IsAborted() disagreed with the ghost flag somewhere
	enterLate bool // a handler started after the abort
}

func verifC05Handler(st *verifAbortState, id int, nexts int, checkAfter bool) HandlerFunc {
	return func(c *Context) {
		if st.aborted {
			st.enterLate = true
		}
		st.tr.enter(id)
		if c.IsAborted() != st.aborted {
			st.badFlag = true
		}
		for j := 0; j < nexts; j++ {
			c.Next()
		}
		if checkAfter && c.IsAborted() != st.aborted {
			st.badFlag = true
		}
		st.tr.leave(id)
	}
}

// verifWellNested: every entered handler leaves, in stack order.
func verifWellNested(ev []int) bool {
	var stack []int
	for _, e := range ev {
		if e > 0 {
			stack = append(stack, e)
		} else {
			if len(stack) == 0 || stack[len(stack)-1] != -e {
				return false
			}
			stack = stack[:len(stack)-1]
		}
	}
	return len(stack) == 0
}

func verifHarness_C05_abort() {
	n := 1 + verifChoice("n", verifParam("N")) // chain length incl. main handler
	g := verifChoice("globals", 3)             // how many of them are global middleware
	if g >= n {
		g = n - 1
	}
	p := verifChoice("pos", n) // aborting handler
	when := verifChoice("when", 3) // 0 before Next, 1 after Next, 2 without Next
	api := verifChoice("api", 3)
	again := verifChoice("again", 2) == 1
	writeFirst := verifChoice("writeFirst", 2) == 1 // the response is already committed when the abort happens
	kd := verifChoice("others", 3) // Next() calls of the other handlers
	code := 0
	if api == 2 {
		code = verifInt("code")
		verifAssume(verifAnd(code >= 100, code <= 599))
	}
	// a second AbortWithStatus in the same request (an outer layer overruling an inner one):
	// nothing is committed yet, so the later status is the one that counts
	twice := api == 2 && verifChoice("twice", 2) == 1
	code2 := 0
	if twice {
		code2 = verifInt("code2")
		verifAssume(verifAnd(code2 >= 100, code2 <= 599))
	}
	st := &verifAbortState{}
	mk := func(i int) HandlerFunc {
		if i != p {
			return verifC05Handler(st, i+1, kd, true)
		}
		return func(c *Context) {
			if st.aborted {
				st.enterLate = true
			}
			st.tr.enter(i + 1)
			if when == 1 {
				c.Next()
			}
			if c.IsAborted() != st.aborted {
				st.badFlag = true
			}
			if writeFirst {
				c.WriteString("partial")
			}
			switch api {
			case 0:
				c.Abort()
			case 1:
				c.AbortThen().SetHeader("X", "y")
			case 2:
				c.AbortWithStatus(code)
			}
			st.aborted = true
			if !c.IsAborted() {
				st.badFlag = true
			}
			if when == 0 {
				c.Next()
			}
			if again {
				c.Next()
			}
			if twice {
				c.AbortWithStatus(code2)
			}
			if !c.IsAborted() {
				st.badFlag = true
			}
			st.tr.leave(i + 1)
		}
	}
	r := New()
	var globals []HandlerFunc
	for i := 0; i < g; i++ {
		globals = append(globals, mk(i))
	}
	r.Use(globals...)
	var mws []HandlerFunc
	for i := g; i < n-1; i++ {
		mws = append(mws, mk(i))
	}
	r.GET("/x", mk(n-1), mws...)
	rec := verifNewWriter()
	r.ServeHTTP(rec, verifRequest("GET", "/x"))

	verifAssert(!st.enterLate, "no handler starts after Abort")
	verifAssert(!st.badFlag, "IsAborted() is false before and true after the abort, in every handler")
	verifAssert(verifWellNested(st.tr.ev), "handlers suspended in Next() resume and run to completion")
	// handlers before the aborting one all started (those whose predecessors call Next or return)
	entered := 0
	for _, e := range st.tr.ev {
		if e > 0 {
			entered++
			verifAssert(e <= p+1 || when == 1, "only handlers up to the aborting one start (unless it aborted after Next)")
		}
	}
	if when != 1 {
		verifAssert(entered == p+1, "every handler before the aborting one ran, none after it")
	} else {
		verifAssert(entered == n, "abort after Next(): the whole chain had already run")
	}
	if api == 2 {
		if when != 1 && !writeFirst {
			want := code
			if twice {
				want = code2
			}
			verifAssert(rec.whCalls == 1 && rec.whStatus == want, "AbortWithStatus determines the response status (the latest one, while nothing is committed)")
		} else {
			verifAssert(rec.whCalls == 1, "one header commit")
		}
	}
	verifCover("C05 abort scenario")
}

// D9 witness (known finding): in a chain of 33 handlers that all call Next()
// once, IsAborted() is true in the first handler after its Next() returns,
// although nobody aborted.
func verifHarness_C05_D9_witness() {
	st := &verifAbortState{}
	r := New()
	var mws []HandlerFunc
	for i := 0; i < 32; i++ {
		mws = append(mws, verifC05Handler(st, i+1, 1, true))
	}
	r.GET("/x", verifC05Handler(st, 33, 1, true), mws...)
	r.ServeHTTP(verifNewWriter(), verifRequest("GET", "/x"))
	verifAssert(!st.badFlag, "IsAborted() is false when nobody aborted (33 handlers calling Next once)")
}

// Long chains up to the registration limit: everything except the D9 class
// (IsAborted() sampled after Next()).
func verifHarness_C05_longChain() {
	lens := []int{21, 32, 40, 62}
	n := lens[verifChoice("n", len(lens))]
	p := verifChoice("pos", 3)
	switch p {
	case 1:
		p = n / 2
	case 2:
		p = n - 1
	}
	st := &verifAbortState{}
	mk := func(i int) HandlerFunc {
		if i != p {
			return verifC05Handler(st, i+1, 1, false)
		}
		return func(c *Context) {
			st.tr.enter(i + 1)
			c.Abort()
			st.aborted = true
			c.Next()
			if !c.IsAborted() {
				st.badFlag = true
			}
			st.tr.leave(i + 1)
		}
	}
	r := New()
	var mws []HandlerFunc
	for i := 0; i < n-1; i++ {
		mws = append(mws, mk(i))
	}
	var k string
	switch verifChoice("shape", 3) {
	case 0:
		k = verifCatch(func() { r.GET("/x", mk(n-1), mws...) })
	case 1: // half of the middleware comes from a group
		h := (n - 1) / 2
		k = verifCatch(func() {
			r.Group("/", func() { r.GET("/x", mk(n-1), mws[h:]...) }, mws[:h]...)
		})
	case 2: // a pre-built route that already carries its middleware, attached inside a group
		h := (n - 1) / 2
		k = verifCatch(func() {
			rt := NewRoute("/x", mk(n-1), "GET").Use(mws[h:]...)
			r.Group("/", func() { r.AddRoute(rt) }, mws[:h]...)
		})
	}
	verifAssert(k == "", "a chain below the handler limit is accepted")
	k = verifCatch(func() { r.ServeHTTP(verifNewWriter(), verifRequest("GET", "/x")) })
	verifAssert(k == "", "serving a chain within the limit does not panic")
	verifAssert(!st.enterLate && !st.badFlag, "abort stops later handlers in a long chain")
	verifAssert(verifWellNested(st.tr.ev), "suspended handlers complete in a long chain")
	entered := 0
	for _, e := range st.tr.ev {
		if e > 0 {
			entered++
		}
	}
	verifAssert(entered == p+1, "exactly the handlers up to the aborting one ran")
	verifCover("C05 long chain")
}


// Chains at and around the documented handler limit, built through every
// registration route: whatever registration accepts must honour Abort.
func verifHarness_C05_limitShapes() {
	// middleware count (+ main): around the limit, and around the sizes at which a narrow counter would wrap
	total := []int{61, 62, 63, 64, 65, 126, 127, 128, 129, 200, 255, 256, 257, 300}[verifChoice("total", 14)]
	shape := verifChoice("shape", 4)
	abortAt := verifChoice("abortAt", 2) // 0: first handler aborts, 1: nobody aborts
	st := &verifAbortState{}
	mainAborted := false
	mainRan := false
	mk := func(i int) HandlerFunc {
		if i == 0 && abortAt == 0 {
			return func(c *Context) {
				st.tr.enter(1)
				c.Abort()
				st.aborted = true
				st.tr.leave(1)
			}
		}
		return func(c *Context) {
			if st.aborted {
				st.enterLate = true
			}
		}
	}
	main := func(c *Context) {
		mainRan = true
		mainAborted = c.IsAborted()
		if st.aborted {
			st.enterLate = true
		}
	}
	mws := make([]HandlerFunc, total)
	for i := range mws {
		mws[i] = mk(i)
	}
	h := total / 2
	r := New()
	k := verifCatch(func() {
		switch shape {
		case 0:
			r.GET("/x", main, mws...)
		case 1:
			r.Group("/", func() { r.GET("/x", main, mws[h:]...) }, mws[:h]...)
		case 2:
			rt := NewRoute("/x", main, "GET").Use(mws[h:]...)
			r.Group("/", func() { r.AddRoute(rt) }, mws[:h]...)
		case 3:
			r.Group("/", func() {
				r.Group("/", func() { r.Any("/x", main, mws[h+5:]...) }, mws[h:h+5]...)
			}, mws[:h]...)
		}
	})
	if k != "" {
		verifAssert(k == "panic", "a refused chain is refused by an explicit panic")
		verifCover("C05 chain refused at registration")
		return
	}
	k = verifCatch(func() { r.ServeHTTP(verifNewWriter(), verifRequest("GET", "/x")) })
	verifAssert(k == "", "serving an accepted chain does not panic")
	if abortAt == 0 {
		verifAssert(!st.enterLate && !mainRan, "abort in the first handler of an accepted chain stops every later handler")
	} else {
		verifAssert(mainRan && !mainAborted, "without an abort the main handler of an accepted chain runs and IsAborted() is false in it")
	}
	verifCover("C05 chain accepted at the limit")
}
