package rux

// White-box probes used by otherwise black-box harnesses.  They name
// unexported fields of Router; when a refactoring renames those, this file is
// left out and the harnesses go on without the probes.

func init() {
	verifCacheLen = func(r *Router) int { return r.cachedRoutes.Len() }
	verifGroupState = func(r *Router) (string, HandlersChain) { return r.currentGroupPrefix, r.currentGroupHandlers }
}
