package rux

import "net/http"

// C08, white-box part: one operation of the response-writer state machine from
// an arbitrary valid state (names unexported fields of responseWriter; left out
// as a whole when those are renamed).

// One operation of the writer state machine from an arbitrary valid state.
//
// INV: uncommitted ⇒ length = -1 ∧ no WriteHeader/body/flush reached the
//      underlying writer ∧ status = last positive code set (or 0);
//      committed   ⇒ length ≥ 0 ∧ exactly one WriteHeader reached it, before
//      anything else ∧ accepted bytes = length.
func verifHarness_C08_writerStep() {
	rec := verifNewWriter()
	rec.shortWr = true
	c := &Context{}
	c.Init(rec, verifRequest("GET", "/"))
	committed := verifBool("committed")
	status := verifInt("status")
	lastPositive := 0
	if committed {
		length := verifInt("length")
		verifAssume(verifAnd(length >= 0, length < 1<<40))
		verifAssume(status > 0)
		c.writer.length = length
		c.writer.status = status
		rec.whCalls = 1
		rec.whStatus = verifInt("committedStatus")
		rec.nbody = length
	} else {
		verifAssume(status >= 0)
		c.writer.status = status
		c.writer.length = -1
		lastPositive = status
	}
	oldLen := c.writer.length
	oldWh := rec.whStatus
	oldBody := rec.nbody
	wantCommitStatus := lastPositive
	op := verifChoice("op", 7)
	wrote := 0
	mustCommit := false
	switch op {
	case 0: // SetStatus(any int)
		code := verifInt("code")
		c.SetStatus(code)
		if !committed {
			want := lastPositive
			if code > 0 {
				want = code
			}
			verifAssert(c.StatusCode() == want, "StatusCode() is the last positive status set")
			lastPositive = want
		}
		verifCover("C08 SetStatus")
	case 1: // header set
		c.SetHeader("X-A", "1")
	case 2: // Write(b), possibly short / failing
		n := verifLen("blen", 0, 2)
		b := make([]byte, n)
		k, _ := c.Resp.Write(b)
		wrote = k
		mustCommit = true
		verifCover("C08 Write")
	case 3: // Flush
		c.writer.Flush()
		mustCommit = true
		verifCover("C08 Flush")
	case 4: // end of chain
		c.writer.ensureWriteHeader()
		mustCommit = true
	case 5: // http.Error helper
		code := verifInt("code")
		verifAssume(verifAnd(code >= 100, code <= 599))
		rec.shortWr = false
		http.Error(c.Resp, "x", code)
		wrote = 2
		mustCommit = true
		if !committed {
			wantCommitStatus = code
		}
	case 6: // Redirect helper
		rec.shortWr = false
		c.Req.Header = http.Header{}
		c.AbortWithStatus(302)
		if !committed {
			lastPositive = 302
		}
	}
	if wantCommitStatus == 0 {
		wantCommitStatus = 200
	}
	verifAssert(rec.preCommit == 0, "nothing reaches the underlying writer before its WriteHeader")
	verifAssert(rec.whCalls <= 1, "at most one WriteHeader reaches the underlying writer")
	if committed {
		verifAssert(rec.whCalls == 1 && rec.whStatus == oldWh, "a committed header is never sent again or changed")
		verifAssert(c.Length() == oldLen+wrote, "Length() grows by exactly the bytes accepted")
		verifAssert(rec.nbody == oldBody+wrote, "body bytes accepted are accounted")
	} else if mustCommit {
		verifAssert(rec.whCalls == 1, "the first write/flush/end-of-chain commits the header exactly once")
		verifAssert(rec.whStatus == wantCommitStatus, "the commit carries the last positive status set (200 if none)")
		verifAssert(c.Length() == wrote, "Length() equals the bytes accepted")
		verifAssert(c.writer.Written(), "Written() after the commit")
	} else {
		verifAssert(rec.whCalls == 0 && rec.nbody == 0, "status/header settings do not touch the underlying writer")
		verifAssert(c.Length() == -1 && !c.writer.Written(), "still uncommitted")
		verifAssert(c.StatusCode() == lastPositive, "uncommitted status is the last positive status set")
	}
}
