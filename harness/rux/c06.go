package rux

// C06 — unmatched requests resolve HEAD->GET, fallback route, 405/Allow, 404
// in order; InterceptAll(p) resolves every request as a request for p.

var verifAllMethods = []string{"GET", "POST", "PUT", "PATCH", "DELETE", "OPTIONS", "HEAD", "CONNECT", "TRACE"}

var verifC06Tables = [][]verifRouteDef{
	{{"/a", []string{"GET"}}},
	{{"/a", []string{"POST"}}, {"/a/{v}", []string{"GET"}}},
	{{"/a/{v}", []string{"GET", "POST"}}, {"/*", verifAllMethods}},
	{{"/*", []string{"GET"}}, {"/a", []string{"DELETE", "PUT"}}},
	{{"/{v}", []string{"HEAD"}}, {"/{v}", []string{"GET"}}},
	{{"/a/{v}", []string{"GET"}}, {"/a/{v}/b", []string{"POST"}}, {"/{all}", []string{"DELETE", "PUT"}}},
	{{`/a/{v:\d+}`, []string{"GET"}}, {"/a/{v}", []string{"POST"}}, {"/*", []string{"POST"}}},
	{{"/a[/{v}]", []string{"GET"}}, {"/a", []string{"POST"}}},
	{{"/a", verifAllMethods}, {"/{v}", []string{"GET"}}},
	{{"/x{v}", []string{"GET"}}, {"/xa", []string{"OPTIONS"}}, {"/*", []string{"HEAD"}}},
	{{`/a/{v:\d+}`, []string{"PUT"}}, {"/{v}/{w}", []string{"PUT"}}, {"/a/{v}", []string{"DELETE"}}},
	{{`/a/{v:\d+}`, []string{"POST", "PUT"}}, {"/{v}/b", []string{"POST"}}, {"/{all}", []string{"HEAD"}}},
	{},
	// a literal route ending in "/*" below a prefix is an ordinary fixed route, not a fallback for that subtree
	{{"/a/*", []string{"GET", "POST"}}, {"/*", []string{"GET"}}, {"/a/{v}", []string{"DELETE"}}},
	// a dynamic route that allows HEAD matches directly; a static GET route for the same path is only the HEAD fallback
	{{"/{v}", verifAllMethods}, {"/a", []string{"GET"}}, {"/b/{w}", []string{"HEAD"}}, {"/b/c", []string{"GET"}}},
}

func verifC06Options(opt int) []func(*Router) {
	var opts []func(*Router)
	if opt&1 != 0 {
		opts = append(opts, HandleMethodNotAllowed)
	}
	if opt&2 != 0 {
		opts = append(opts, HandleFallbackRoute)
	}
	if opt&4 != 0 {
		opts = append(opts, StrictLastSlash)
	}
	if opt&8 != 0 {
		opts = append(opts, EnableCaching)
	}
	return opts
}

// verifAnyQualifies: some route qualifies for (m, p).
func verifAnyQualifies(defs []verifRouteDef, m, p string) bool {
	r := false
	for i := range defs {
		if verifHasMethod(defs[i].methods, m) {
			r = verifOr(r, verifSpecMatches(defs[i].pat, p))
		}
	}
	return r
}

func verifFallbackIndex(defs []verifRouteDef, m string) int {
	idx := -1
	for i := range defs {
		if defs[i].pat == "/*" && verifHasMethod(defs[i].methods, m) {
			idx = i // the static index keeps the route registered last under a key
		}
	}
	return idx
}

// verifC06Spec states the decision list for a concrete outcome (g, alm).
func verifC06Spec(defs []verifRouteDef, opt int, m, p string, g int, alm []string) bool {
	direct := verifWinnerIs(defs, m, p, g)
	noneM := verifNot(verifAnyQualifies(defs, m, p))
	noneDirect := noneM
	viaGet := false
	if m == "HEAD" {
		viaGet = verifAnd(noneM, verifWinnerIs(defs, "GET", p, g))
		noneDirect = verifAnd(noneM, verifNot(verifAnyQualifies(defs, "GET", p)))
	}
	fb := -1
	if opt&2 != 0 {
		fb = verifFallbackIndex(defs, m)
	}
	if g >= 0 {
		ok := verifOr(direct, viaGet)
		if g == fb {
			ok = verifOr(ok, noneDirect)
		}
		return verifAnd(ok, len(alm) == 0)
	}
	// no route returned
	ok := noneDirect
	if fb >= 0 {
		return false // the fallback route must have been used
	}
	for _, mm := range verifAllMethods {
		if mm == m {
			if verifHasMethod(alm, mm) {
				return false
			}
			continue
		}
		q := verifAnyQualifies(defs, mm, p)
		if opt&1 == 0 {
			if verifHasMethod(alm, mm) {
				return false
			}
			continue
		}
		if verifHasMethod(alm, mm) {
			ok = verifAnd(ok, q)
		} else {
			ok = verifAnd(ok, verifNot(q))
		}
	}
	return ok
}

func verifReqMethod() string {
	ms := []string{"GET", "POST", "HEAD", "OPTIONS", "DELETE", "BREW"}
	return ms[verifChoice("method", len(ms))]
}

func verifHarness_C06_order() {
	cfg := verifCfg()
	opt := cfg % 16
	defs := verifC06Tables[(cfg/16)%len(verifC06Tables)]
	r := New(verifC06Options(opt)...)
	routes := verifBuildTable(r, defs)
	m := verifReqMethod()
	p := verifNormalPath("p", verifParam("L"))
	got, _, alm := r.QuickMatch(m, p)
	g := verifRouteIndex(routes, got)
	if got != nil && g < 0 {
		// a cached copy: identify it by its pattern and methods
		for i := range routes {
			if routes[i].Path() == got.Path() && verifSameStrings(routes[i].Methods(), got.Methods()) {
				g = i
			}
		}
	}
	verifAssert(verifOr(got == nil, g >= 0), "the returned route is a registered route")
	nodup := true
	for i := range alm {
		for j := i + 1; j < len(alm); j++ {
			if alm[i] == alm[j] {
				nodup = false
			}
		}
	}
	verifAssert(nodup, "the allowed set has no duplicates")
	verifAssert(verifC06Spec(defs, opt, m, p, g, alm), "outcome follows the order: direct, HEAD->GET, fallback route, not-allowed with exactly the other matching methods, not found")
	switch {
	case got != nil:
		verifCover("C06 route")
	case len(alm) > 0:
		verifCover("C06 not allowed")
	default:
		verifCover("C06 not found")
	}
}

// Through ServeHTTP: default 405 answer with a sorted Allow header (200 for
// OPTIONS), default 404, and custom handlers see the allowed set.
func verifHarness_C06_serve() {
	cfg := verifCfg()
	custom := cfg%2 == 1
	defs := verifC06Tables[(cfg/2)%len(verifC06Tables)]
	// second half of the configurations: a caching router that has already served a HEAD and a
	// GET request for the same path (what the measured request is answered must not depend on it)
	warmed := (cfg/(2*len(verifC06Tables)))%2 == 1
	r := New(HandleMethodNotAllowed)
	if warmed {
		r = New(HandleMethodNotAllowed, EnableCaching)
	}
	ran := -1
	for i, d := range defs {
		i := i
		r.Add(d.pat, func(c *Context) { ran = i }, d.methods...)
	}
	var sawAllowed []string
	nfRan, naRan := false, false
	if !custom && (cfg/2)%3 == 1 {
		// the setters called without any handler (dropping custom handlers, or an empty list
		// expanded with ...) leave the built-in answers in place
		r.NotFound()
		r.NotAllowed()
	}
	if custom {
		r.NotFound(func(c *Context) { nfRan = true })
		r.NotAllowed(func(c *Context) {
			naRan = true
			sawAllowed, _ = c.SafeGet(CTXAllowedMethods).([]string)
		})
	}
	m := verifReqMethod()
	p := verifNormalPath("p", verifParam("L"))
	if warmed {
		r.ServeHTTP(verifNewWriter(), verifRequest("HEAD", p))
		r.ServeHTTP(verifNewWriter(), verifRequest("GET", p))
		ran, nfRan, naRan, sawAllowed = -1, false, false, nil
	}
	rec := verifNewWriter()
	r.ServeHTTP(rec, verifRequest(m, p))
	// expected allowed set, from the specification
	anyDirect := verifAnyQualifies(defs, m, p)
	if m == "HEAD" {
		anyDirect = verifOr(anyDirect, verifAnyQualifies(defs, "GET", p))
	}
	if ran >= 0 {
		verifAssert(anyDirect, "a route handler runs only if a route qualifies")
		verifAssert(rec.whCalls == 1 && rec.whStatus == 200, "route answer committed")
		verifCover("C06 served route")
		return
	}
	verifAssert(verifNot(anyDirect), "fallback handlers run only if no route qualifies")
	// which methods does the spec allow?
	var allowed []string
	for _, mm := range []string{"CONNECT", "DELETE", "GET", "HEAD", "OPTIONS", "PATCH", "POST", "PUT", "TRACE"} { // sorted
		if mm != m && verifAnyQualifies(defs, mm, p) {
			allowed = append(allowed, mm)
		}
	}
	if len(allowed) == 0 {
		if custom {
			verifAssert(nfRan && !naRan, "the not-found handlers run")
		} else {
			verifAssert(rec.whStatus == 404, "default answer is 404")
		}
		verifCover("C06 served 404")
		return
	}
	if custom {
		verifAssert(naRan && !nfRan, "the not-allowed handlers run")
		verifAssert(verifSameStrings(sawAllowed, allowed), "custom handlers see exactly the other matching methods")
	} else {
		want := ""
		for i, a := range allowed {
			if i > 0 {
				want += ", "
			}
			want += a
		}
		verifAssert(rec.hdr.Get("Allow") == want, "Allow lists exactly the other matching methods, sorted")
		if m == "OPTIONS" {
			verifAssert(rec.whStatus == 200, "OPTIONS is answered 200")
		} else {
			verifAssert(rec.whStatus == 405, "default answer is 405")
		}
	}
	verifCover("C06 served 405")
}

var verifC06Targets = []string{"/a", "a", "/a/", " /a/b ", "//a", "/a/7", "/nowhere", "/"}

// InterceptAll(t): every request is resolved exactly as a request for t.
func verifHarness_C06_intercept() {
	cfg := verifCfg()
	t := verifC06Targets[cfg%len(verifC06Targets)]
	cfg /= len(verifC06Targets)
	opt := cfg % 4 // not-allowed, fallback
	defs := verifC06Tables[(cfg/4)%len(verifC06Tables)]
	rI := New(append(verifC06Options(opt), InterceptAll(t))...)
	rN := New(verifC06Options(opt)...)
	verifNamedTable(rI, defs)
	verifNamedTable(rN, defs)
	m := verifReqMethod()
	n := verifLen("plen", 0, verifParam("L"))
	p := verifString("p", n)
	a, pa, alma := rN.QuickMatch(m, t)
	b, pb, almb := rI.QuickMatch(m, p)
	verifAssert(verifSameAnswer(a, pa, alma, b, pb, almb), "with InterceptAll(t) every request is resolved exactly as a request for t")
	// the public Match (any spelling of the method) is intercepted like QuickMatch and the dispatcher:
	// also for a path that is, verbatim, a registered static route
	for _, q := range []string{p, "/a", "/xa"} {
		c, pc, almc := rI.Match(m, q)
		verifAssert(verifSameAnswer(a, pa, alma, c, pc, almc), "Match on an intercepting router resolves the target as well")
	}
	verifCover("C06 intercept")
}
