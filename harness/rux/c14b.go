package rux

// C14, router clause (uses only the cache's own API).

// After a dynamic request has been resolved with caching enabled, the entry
// for exactly that method and path is present and the repeat is a cache hit.
func verifHarness_C14_routerRepeat() {
	pat := verifC02Pool[verifCfg()%len(verifC02Pool)]
	verifAssume(!verifIsStaticPattern(pat))
	r := New(EnableCaching)
	r.GET(pat, verifNop)
	p := verifNormalPath("p", verifParam("L"))
	empty := r.cachedRoutes.Len()
	got, _, _ := r.QuickMatch("GET", p)
	if got == nil {
		return
	}
	// stated behaviourally (independent of the key's spelling): the match stored one
	// entry, and the immediate repeat is answered from it without storing another
	before := r.cachedRoutes.Len()
	verifAssert(empty == 0 && before == 1, "a dynamic match stores exactly one entry")
	got2, _, _ := r.QuickMatch("GET", p)
	verifAssert(got2 != nil, "the repeat is answered")
	verifAssert(got2 != got, "the repeat is answered from the cache (a cached copy, not the table's route)")
	verifAssert(r.cachedRoutes.Len() == before, "a repeat does not add an entry")
	verifCover("C14 repeat")
}
