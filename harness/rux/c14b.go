package rux

// C14, router clause (uses only the cache's own API).

// After a dynamic request has been resolved with caching enabled, the entry
// for exactly that method and path is present and the repeat is a cache hit.
func verifHarness_C14_routerRepeat() {
	pat := verifC02Pool[verifCfg()%len(verifC02Pool)]
	verifAssume(!verifIsStaticPattern(pat))
	r := New(EnableCaching)
	// what the router answered before must not matter: with the not-allowed probing on, it
	// has already answered a not-found, a method-not-allowed and a HEAD request
	warmed := verifChoice("history", 2) == 1
	if warmed {
		r = New(EnableCaching, HandleMethodNotAllowed)
		r.POST("/only/post/and/a/rather/long/one", verifNop)
	}
	r.GET(pat, verifNop)
	if warmed {
		r.QuickMatch("GET", "/no/such/route/at/all")
		r.QuickMatch("GET", "/only/post/and/a/rather/long/one")
		r.QuickMatch("HEAD", "/no/such/route/at/all")
	}
	p := verifNormalPath("p", verifParam("L"))
	empty := r.cachedRoutes.Len()
	got, _, _ := r.QuickMatch("GET", p)
	if got == nil {
		return
	}
	// stated behaviourally (independent of the key's spelling): the match stored one
	// entry, and the immediate repeat is answered from it without storing another
	before := r.cachedRoutes.Len()
	// (the earlier requests are longer than p, so p's entry is new; they may have left entries of
	// their own when the pattern matches them too)
	verifAssert((warmed || empty == 0) && before == empty+1, "a dynamic match stores exactly one entry")
	got2, _, _ := r.QuickMatch("GET", p)
	verifAssert(got2 != nil, "the repeat is answered")
	verifAssert(got2 != got, "the repeat is answered from the cache (a cached copy, not the table's route)")
	verifAssert(r.cachedRoutes.Len() == before, "a repeat does not add an entry")
	verifCover("C14 repeat")
}
