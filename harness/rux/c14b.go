package rux

// C14, router clause (uses only the cache's own API).

import "strconv"

// After a dynamic request has been resolved with caching enabled, the entry
// for exactly that method and path is present and the repeat is a cache hit.
func verifHarness_C14_routerRepeat() {
	pat := verifC02Pool[verifCfg()%len(verifC02Pool)]
	verifAssume(!verifIsStaticPattern(pat))
	r := New(EnableCaching)
	// what the router answered before must not matter: with the not-allowed probing on, it
	// has already answered a not-found, a method-not-allowed and a HEAD request
	warmed := verifChoice("history", 2) == 1
	if warmed {
		r = New(EnableCaching, HandleMethodNotAllowed)
		r.POST("/only/post/and/a/rather/long/one", verifNop)
	}
	r.GET(pat, verifNop)
	if warmed {
		r.QuickMatch("GET", "/no/such/route/at/all")
		r.QuickMatch("GET", "/only/post/and/a/rather/long/one")
		r.QuickMatch("HEAD", "/no/such/route/at/all")
	}
	p := verifNormalPath("p", verifParam("L"))
	empty := r.cachedRoutes.Len()
	got, _, _ := r.QuickMatch("GET", p)
	if got == nil {
		return
	}
	// stated behaviourally (independent of the key's spelling): the match stored one
	// entry, and the immediate repeat is answered from it without storing another
	before := r.cachedRoutes.Len()
	// (the earlier requests are longer than p, so p's entry is new; they may have left entries of
	// their own when the pattern matches them too)
	verifAssert((warmed || empty == 0) && before == empty+1, "a dynamic match stores exactly one entry")
	got2, _, _ := r.QuickMatch("GET", p)
	verifAssert(got2 != nil, "the repeat is answered")
	verifAssert(got2 != got, "the repeat is answered from the cache (a cached copy, not the table's route)")
	verifAssert(r.cachedRoutes.Len() == before, "a repeat does not add an entry")
	verifCover("C14 repeat")
}

// The capacity that counts is the one configured when the first route is
// registered, however the options were ordered or split over New/WithOptions;
// and every resolved dynamic request is stored, whatever the length of its path.
func verifHarness_C14_capacity() {
	cfg := verifCfg()
	n := cfg % 3
	order := (cfg / 3) % 4
	var r *Router
	switch order {
	case 0:
		r = New(CachingWithNum(uint16(n)))
	case 1:
		r = New(MaxNumCaches(uint16(n)), EnableCaching)
	case 2:
		r = New(EnableCaching, MaxNumCaches(uint16(n)))
	case 3:
		r = New(EnableCaching)
		r.WithOptions(MaxNumCaches(uint16(n)))
	}
	rt := r.GET("/u/{v}", verifNop)
	long := "/u/"
	for i := 0; i < 300; i++ {
		long += "a"
	}
	bounded, stored := true, true
	for _, p := range []string{"/u/a", "/u/b", "/u/c", long, "/u/d"} {
		got, _, _ := r.QuickMatch("GET", p)
		verifAssert(got != nil, "the dynamic request is resolved")
		bounded = verifAnd(bounded, r.cachedRoutes.Len() <= n)
		if n > 0 {
			again, _, _ := r.QuickMatch("GET", p)
			stored = verifAnd(stored, again != nil && again != rt && r.cachedRoutes.Has("GET"+p))
		}
	}
	verifAssert(bounded, "the cache never holds more entries than the configured capacity, whatever the order of the options")
	verifAssert(stored, "every resolved dynamic request is stored under its method and path (also a long one) and its repeat is served from the cache")
	verifCover("C14 capacity")
}

// The largest capacity the option type admits: the cache still never holds
// more entries than that (65 540 distinct keys are stored).
func verifHarness_C14_largest() {
	const capacity = 65535
	c := NewCachedRoutes(capacity)
	rt := &Route{name: "r"}
	over := false
	for i := 0; i < capacity+5; i++ {
		c.Set("k"+strconv.Itoa(i), rt)
		if c.Len() > capacity {
			over = true
		}
	}
	verifAssert(!over && c.Len() == capacity, "at the largest capacity the cache holds exactly that many entries after more were stored")
	verifAssert(!c.Has("k0") && c.Has("k"+strconv.Itoa(capacity+4)), "the oldest entries were evicted, the newest is present")
	verifCover("C14 largest capacity")
}
