package rux

// C14 — the route cache is a bounded LRU map; repeats are served from it.

import "container/list"

type verifLRUModel struct {
	keys []string // most recent first
	vals []*Route
}

func (m *verifLRUModel) find(k string) int {
	for i := range m.keys {
		if m.keys[i] == k {
			return i
		}
	}
	return -1
}

func (m *verifLRUModel) toFront(i int) {
	k, v := m.keys[i], m.vals[i]
	copy(m.keys[1:i+1], m.keys[:i])
	copy(m.vals[1:i+1], m.vals[:i])
	m.keys[0], m.vals[0] = k, v
}

func (m *verifLRUModel) set(k string, v *Route, capacity int) {
	if i := m.find(k); i >= 0 {
		m.toFront(i)
		m.vals[0] = v
		return
	}
	m.keys = append([]string{k}, m.keys...)
	m.vals = append([]*Route{v}, m.vals...)
	if len(m.keys) > capacity {
		m.keys = m.keys[:len(m.keys)-1]
		m.vals = m.vals[:len(m.vals)-1]
	}
}

func (m *verifLRUModel) del(i int) {
	m.keys = append(m.keys[:i:i], m.keys[i+1:]...)
	m.vals = append(m.vals[:i:i], m.vals[i+1:]...)
}

// verifLRUCheck compares the real cache with the model and checks the
// representation invariant.
func verifLRUCheck(c *cachedRoutes, m *verifLRUModel, capacity int, when string) {
	n := 0
	same := true
	inv := true
	for e := c.list.Front(); e != nil; e = e.Next() {
		node := e.Value.(*cacheNode)
		if n < len(m.keys) {
			same = verifAnd(same, verifAnd(node.Key == m.keys[n], node.Value == m.vals[n]))
		}
		var idx *list.Element = c.hashMap[node.Key]
		inv = verifAnd(inv, idx == e)
		n++
	}
	verifAssert(n == len(m.keys), when+": number of entries equals the model's")
	verifAssert(same, when+": recency order, keys and values equal the model's")
	verifAssert(inv, when+": every index entry points at the element holding its key")
	verifAssert(len(c.hashMap) == c.list.Len(), when+": index size equals list length")
	verifAssert(verifOr(c.list.Len() <= capacity, capacity == 0 && c.list.Len() == 0), when+": never more entries than the capacity")
	verifAssert(c.Len() == n, when+": Len() reports the number of entries")
}

func verifHarness_C14_lruStep() {
	capacity := verifChoice("cap", verifParam("C")+1)
	n := verifChoice("n", capacity+1)
	c := NewCachedRoutes(capacity)
	m := &verifLRUModel{}
	pool := make([]*Route, capacity+2)
	for i := range pool {
		pool[i] = &Route{name: "r" + string(rune('0'+i))}
	}
	fresh := pool[len(pool)-1] // the value a Set of this step stores
	keys := make([]string, n)
	for i := 0; i < n; i++ {
		keys[i] = verifString("key", 1)
		for j := 0; j < i; j++ {
			verifAssume(keys[i] != keys[j])
		}
	}
	// build the pre-state through the real code: least recent first
	for i := n - 1; i >= 0; i-- {
		c.Set(keys[i], pool[i])
		m.set(keys[i], pool[i], capacity)
	}
	verifLRUCheck(c, m, capacity, "pre-state")
	k := verifString("k", 1)
	switch verifChoice("op", 5) {
	case 0: // Set
		c.Set(k, fresh)
		m.set(k, fresh, capacity)
		if capacity > 0 {
			v, ok := c.Get(k)
			verifAssert(ok, "a key just stored is present")
			verifAssert(v == fresh, "a key just stored maps to the stored value")
			m.toFront(m.find(k))
		}
		verifCover("C14 set")
	case 1: // Get
		v, ok := c.Get(k)
		i := m.find(k)
		verifAssert(ok == (i >= 0), "Get finds exactly the stored keys")
		if i >= 0 {
			verifAssert(v == m.vals[i], "Get returns the stored value")
			m.toFront(i)
			verifCover("C14 get hit")
		} else {
			verifAssert(v == nil, "Get of an absent key returns nil")
		}
	case 2: // Has
		ok := c.Has(k)
		i := m.find(k)
		verifAssert(ok == (i >= 0), "Has reports exactly the stored keys")
		if i >= 0 {
			m.toFront(i) // Has is implemented by Get: it refreshes recency
		}
	case 3: // Delete
		ok := c.Delete(k)
		i := m.find(k)
		verifAssert(ok == (i >= 0), "Delete reports whether the key was present")
		if i >= 0 {
			m.del(i)
			verifCover("C14 delete hit")
		}
	case 4:
		verifAssert(c.Len() == len(m.keys), "Len equals the number of entries")
	}
	verifLRUCheck(c, m, capacity, "post-state")
}

