package rux

// C07 — the dynamic-route cache never changes what a request observes.
// Twin routers (cache off / cache on with capacity 0..2) are built by the
// same registration program and driven by the same request history; every
// answer is compared observationally.

var verifC07Tables = [][]verifRouteDef{
	{{"/a/{v}", []string{"GET"}}},
	{{`/a/{v:\d+}`, []string{"GET", "POST"}}},
	{{"/{v}", []string{"GET"}}},
	{{"/{v}/b", []string{"GET"}}, {"/{v}", []string{"GET"}}},
	{{"/a/{v}", []string{"GET"}}, {"/a/{v}/b", []string{"POST"}}},
	{{"/a/{v}", []string{"POST"}}, {"/{v}/{w}", []string{"GET"}}},
	{{"/a[/{v}]", []string{"GET"}}},
	{{"/a/b", []string{"GET"}}, {"/a/{v}", []string{"GET"}}},
	{{"/{all}", []string{"POST"}}, {`/{v:\d+}`, []string{"GET"}}},
	{{"/a/{v}.x", []string{"GET"}}, {"/a/{v}", []string{"HEAD"}}},
	{{"/x{v}", []string{"DELETE", "PUT"}}, {"/{v}", []string{"GET"}}},
	{{"/a/{v}/{w}", []string{"GET"}}, {"/a/{v}", []string{"GET"}}, {"/{v}", []string{"POST"}}},
	{{`/a/{v:\d+}`, []string{"POST"}}, {"/a/{w}", []string{"GET", "POST"}}},
	{{`/{v:\d+}`, []string{"POST"}}, {"/{w}", []string{"GET", "POST", "HEAD"}}},
	{{"/a/{v}", []string{"GET", "POST"}}, {`/a/{w:\d+}`, []string{"POST"}}, {"/a/{u}", []string{"HEAD"}}},
	{{"/*", []string{"GET"}}, {"/a/{v}", []string{"POST"}}},
}

func verifNamedTable(r *Router, defs []verifRouteDef) {
	for i, d := range defs {
		// (each route carries one middleware, so that "same middleware" is not vacuous)
		r.AddNamed(string(rune('A'+i)), d.pat, verifNop, d.methods...).Use(verifNop)
	}
}

func verifSameStrings(a, b []string) bool {
	if len(a) != len(b) {
		return false
	}
	for _, x := range a {
		if !verifHasMethod(b, x) {
			return false
		}
	}
	return true
}

// verifSameAnswer compares two QuickMatch answers observationally.
func verifSameAnswer(a *Route, pa Params, alma []string, b *Route, pb Params, almb []string) bool {
	if (a == nil) != (b == nil) {
		return false
	}
	ok := verifSameStrings(alma, almb)
	if a == nil {
		return ok
	}
	ok = verifAnd(ok, a.Name() == b.Name() && a.Path() == b.Path() && len(a.Handlers()) == len(b.Handlers()) && verifSameStrings(a.Methods(), b.Methods()))
	if len(pa) != len(pb) {
		return false
	}
	for k, v := range pa {
		w, has := pb[k]
		if !has {
			return false
		}
		ok = verifAnd(ok, v == w)
	}
	return ok
}

func verifHarness_C07_twin() {
	defs := verifC07Tables[verifCfg()%len(verifC07Tables)]
	capacity := verifChoice("cap", 3)
	notAllowed := verifChoice("405", 2) == 1
	var base []func(*Router)
	if notAllowed {
		base = append(base, HandleMethodNotAllowed)
	}
	if verifCfg()%len(verifC07Tables) == len(verifC07Tables)-1 {
		base = append(base, HandleFallbackRoute) // (the table with a "/*" route)
	}
	rOff := New(base...)
	rOn := New(append(append([]func(*Router){}, base...), CachingWithNum(uint16(capacity)))...)
	verifNamedTable(rOff, defs)
	verifNamedTable(rOn, defs)
	// all request paths of the history have the same (forked) length, so that
	// "same path again" and "another path" are both solver cases of one run
	n := verifLen("n", 1, verifParam("L"))
	methods := []string{"GET", "HEAD", "POST"}
	K := verifParam("K")
	hits := 0
	for k := 0; k < K; k++ {
		m := methods[verifChoice("m", len(methods))]
		p := verifNormalPathN("p", n)
		a, pa, alma := rOff.QuickMatch(m, p)
		b, pb, almb := rOn.QuickMatch(m, p)
		verifAssert(verifSameAnswer(a, pa, alma, b, pb, almb), "caching router answers exactly like the non-caching twin")
		if verifCacheLen != nil {
			verifAssert(verifCacheLen(rOn) <= capacity, "cache never exceeds its capacity")
		}
		if a != nil && a != b {
			hits++
		}
	}
	if hits > 0 {
		verifCover("C07 answer served from the cache")
	}
}

// The same comparison through the dispatcher: what a handler sees (which
// route, which parameters) on a caching router equals what it sees on the
// twin without a cache, for every request of a history (the context of one
// request is recycled for the next).
func verifHarness_C07_served() {
	cfg := verifCfg()
	defs := [][]verifRouteDef{
		{{"/{v}", []string{"GET"}}, {"/{w}/{x}", []string{"GET"}}},
		{{"/u/{id}", []string{"GET"}}, {"/{oid}/{item}", []string{"GET"}}},
	}[cfg%2]
	capacity := 2 + (cfg/2)%2
	// with StrictLastSlash (on both routers) a trailing slash is part of the path, and the
	// requests may end in one
	strict := (cfg/4)%2 == 1
	type seen struct {
		route  int
		params Params
	}
	mk := func(opts ...func(*Router)) (*Router, *[]seen) {
		var log []seen
		if strict {
			opts = append(opts, StrictLastSlash)
		}
		r := New(opts...)
		for i, d := range defs {
			i := i
			r.Add(d.pat, func(c *Context) {
				cp := Params{}
				for k, v := range c.Params {
					cp[k] = v
				}
				log = append(log, seen{i, cp})
			}, d.methods...)
		}
		return r, &log
	}
	rOff, logOff := mk()
	rOn, logOn := mk(CachingWithNum(uint16(capacity)))
	K := verifParam("K")
	// the whole history first on the router without a cache, then on the caching one (state that
	// lives outside the routers - a package-level pool, say - must not be shared round by round)
	paths := make([]string, K)
	var offSeen [][]seen
	for k := 0; k < K; k++ {
		n := verifLen("n", 2, verifParam("L"))
		if strict {
			q := verifString("p", n)
			verifAssume(verifAnd(q[0] == '/', q[1] != '/'))
			last := q[n-1]
			verifAssume(verifOr(verifAnd(last > 0x20, last < 0x80), last >= 0xB0))
			paths[k] = q
		} else {
			paths[k] = verifNormalPathN("p", n)
		}
		*logOff = nil
		rOff.ServeHTTP(verifNewWriter(), verifRequest("GET", paths[k]))
		offSeen = append(offSeen, append([]seen(nil), *logOff...))
	}
	for k := 0; k < K; k++ {
		// (between two served requests the application also asks the router directly, which
		// takes whatever the lookup takes without a request ever ending)
		if k > 0 {
			rOn.Match("GET", paths[(k+1)%K])
		}
		*logOn = nil
		rOn.ServeHTTP(verifNewWriter(), verifRequest("GET", paths[k]))
		same := len(offSeen[k]) == len(*logOn)
		if same && len(*logOn) == 1 {
			a, b := offSeen[k][0], (*logOn)[0]
			same = a.route == b.route && len(a.params) == len(b.params)
			if same {
				for key, v := range a.params {
					w, has := b.params[key]
					if !has {
						same = false
						break
					}
					same = verifAnd(same, v == w)
				}
			}
		}
		verifAssert(same, "the handler on the caching router sees the route and parameters its twin sees")
	}
	verifCover("C07 served history")
}
