package rux

// C19 (Context helpers): each helper produces the status it was given, its
// documented Content-Type and the given body.

import (
	"encoding/json"
	"encoding/xml"
	"io"
	"net/http"
	"strings"
)

// verifDataEOFReader delivers its data in chunks and returns io.EOF together
// with the last chunk.
type verifDataEOFReader struct {
	data  []byte
	chunk int
}

func (r *verifDataEOFReader) Read(p []byte) (int, error) {
	n := r.chunk
	if n > len(r.data) {
		n = len(r.data)
	}
	if n > len(p) {
		n = len(p)
	}
	copy(p, r.data[:n])
	r.data = r.data[n:]
	if len(r.data) == 0 {
		return n, io.EOF
	}
	return n, nil
}

// verifWrapResp is the kind of writer a logging or compressing middleware puts
// in c.Resp: it forwards everything and, like net/http, treats a Write without
// a preceding WriteHeader as status 200.
type verifWrapResp struct {
	inner  http.ResponseWriter
	wrote  bool
	status int
}

func (w *verifWrapResp) Header() http.Header { return w.inner.Header() }
func (w *verifWrapResp) WriteHeader(code int) {
	if !w.wrote {
		w.wrote, w.status = true, code
	}
	w.inner.WriteHeader(code)
}
func (w *verifWrapResp) Write(b []byte) (int, error) {
	if !w.wrote {
		w.WriteHeader(200)
	}
	return w.inner.Write(b)
}

type verifC19Obj struct {
	XMLName xml.Name `xml:"p" json:"-"`
	N       string   `xml:"n" json:"n"`
}

func verifHarness_C19_helpers() {
	kind := verifChoice("helper", 12)
	status := verifInt("status")
	verifAssume(verifAnd(status >= 100, status <= 599))
	n := verifLen("payload_len", 0, verifParam("P"))
	payload := verifString("payload", n)
	var obj any = verifC19Obj{N: "v"}
	unencodable := kind >= 5 && kind <= 7 && verifChoice("unencodable", 2) == 1
	verifSetGhost("err.json.Encode", unencodable)
	verifSetGhost("err.xml.Encode", unencodable)
	if unencodable && !verifSymbolic() {
		obj = make(chan int)
	}
	cb := "cb"
	r := New()
	// a middleware may have put its own writer in c.Resp (one that, like net/http's, commits 200
	// on the first Write unless it was given a status): the helpers that write status and body
	// through c.Resp give it the status they were given.  (The helpers built on Respond - JSON,
	// JSONP, XML - record the status on the context's own writer instead; see DESIGN 7.4.)
	var wrap *verifWrapResp
	if !(kind >= 5 && kind <= 7) && verifChoice("wrappedWriter", 2) == 1 {
		r.Use(func(c *Context) {
			wrap = &verifWrapResp{inner: c.Resp}
			c.Resp = wrap
			c.Next()
		})
	}
	// a middleware may have put a default Content-Type on the response: the helpers that state
	// their own type replace it (the renderers behind JSON / JSONP / XML keep a type that is already set)
	presetCT := verifChoice("presetContentType", 2) == 1
	if presetCT {
		r.Use(func(c *Context) { c.SetHeader("Content-Type", "application/vnd.api+json") })
	}
	nErrors := 0
	r.GET("/x", func(c *Context) {
		switch kind {
		case 0:
			c.Text(status, payload)
		case 1:
			c.HTML(status, []byte(payload))
		case 2:
			c.HTMLString(status, payload)
		case 3:
			c.JSONBytes(status, []byte(payload))
		case 4:
			c.Blob(status, "image/png", []byte(payload))
		case 5:
			c.JSON(status, obj)
		case 6:
			c.JSONP(status, cb, obj)
		case 7:
			c.XML(status, obj)
		case 8:
			c.NoContent()
		case 9:
			c.Redirect("/to", status)
		case 10:
			c.HTTPError(payload, status)
		case 11:
			// a reader that hands out its last bytes together with io.EOF (as io.Reader allows), or separately
			if verifChoice("readerStyle", 2) == 1 {
				c.Stream(status, "text/csv", &verifDataEOFReader{data: []byte(payload), chunk: 2})
			} else {
				c.Stream(status, "text/csv", &verifPlainReader{data: []byte(payload)})
			}
		}
		nErrors = len(c.Errors)
	})
	rec := verifNewWriter()
	k := verifCatch(func() { r.ServeHTTP(rec, verifRequest("GET", "/x")) })
	verifAssert(k == "", "response helpers never panic")
	ct := rec.hdr.Get("Content-Type")
	body := string(rec.body)
	want := status
	if kind == 8 {
		want = 204
	}
	verifAssert(rec.whCalls == 1 && rec.whStatus == want, "the helper produces the status it was given")
	if wrap != nil {
		verifAssert(wrap.status == want, "a writer installed by a middleware is given the same status")
	}
	switch kind {
	case 0:
		verifAssert(ct == "text/plain; charset=utf-8" && body == payload, "Text: text/plain and the given text")
	case 1, 2:
		verifAssert(ct == "text/html; charset=utf-8" && body == payload, "HTML: text/html and the given bytes")
	case 3:
		verifAssert(ct == "application/json; charset=utf-8" && body == payload, "JSONBytes: application/json and the given bytes")
	case 4:
		verifAssert(ct == "image/png" && body == payload, "Blob: the given content type and bytes")
	case 8:
		verifAssert(body == "", "NoContent writes no body")
	case 9:
		verifAssert(rec.hdr.Get("Location") == "/to", "Redirect sets the Location header")
	case 10:
		verifAssert(body == payload+"\n", "HTTPError writes the message")
	case 11:
		verifAssert(ct == "text/csv" && body == payload && nErrors == 0, "Stream: the given content type and every byte the reader delivered")
	case 5, 6, 7:
		docs := map[int]string{5: "application/json; charset=utf-8", 6: "application/javascript; charset=utf-8", 7: "application/xml; charset=utf-8"}
		if presetCT {
			verifAssert(ct == "application/vnd.api+json", "the renderers never override a Content-Type that is already set")
		} else {
			verifAssert(ct == docs[kind], "encoding helpers set their documented Content-Type")
		}
		verifAssert((nErrors > 0) == unencodable, "an encoding failure is reported through the context's error list (and only then)")
		if nErrors > 0 {
			verifCover("C19 encoder failure reported through the error list")
			return
		}
		if verifSymbolic() {
			switch kind {
			case 5:
				verifAssert(body == "<json:github.com/gookit/rux.verifC19Obj>", "JSON body is the encoding of the value")
			case 6:
				verifAssert(body == cb+"(<json:github.com/gookit/rux.verifC19Obj>);", "JSONP body is callback(encoding);")
			case 7:
				verifAssert(body == xml.Header+"<xml:github.com/gookit/rux.verifC19Obj>", "XML body is the XML header and the encoding")
			}
		} else {
			var back verifC19Obj
			switch kind {
			case 5:
				verifAssert(json.Unmarshal(rec.body, &back) == nil && back.N == "v", "JSON body decodes back to the value")
			case 6:
				ok := strings.HasPrefix(body, cb+"(") && strings.HasSuffix(body, ");")
				verifAssert(ok, "JSONP wraps the encoding as callback(...);")
				if ok {
					verifAssert(json.Unmarshal([]byte(body[len(cb)+1:len(body)-2]), &back) == nil && back.N == "v", "JSONP payload decodes back to the value")
				}
			case 7:
				verifAssert(strings.HasPrefix(body, xml.Header) && xml.Unmarshal(rec.body, &back) == nil && back.N == "v", "XML body decodes back to the value")
			}
		}
	}
	verifCover("C19 helper")
}
