package rux

// C02 — path parameters are exactly the substrings the pattern captured.

import (
	"net/url"
	"regexp"
)

var verifC02Pool = []string{
	"/a/{v}", `/a/{v:\d+}`, "/a/{v}/b", "/a/{v}.x", "/ab/{v:[a-z]+}", "/v1.0/{v}", "/a/b{v}", "/a/{v}/{w}", "/a/b[/{v}]",
	"/{v}", "/{v}/b", `/{v:\d+}`, "/x{v}", "/{num}", "/{all}", "/{v}.x", "/a[/{v}[/{w}]]", "/{v}[.x]", "/{any}/a", "/a[/{v}]",
	`/{v:\d+}/{w:[a-z]+}/{u}`, "/{v}-{w}", `/{v:[a-z]+}{w:\d+}`, "/s/{file:.+}", `/s/{file:.+\.(?:css|js)}`, "/a/{v}/b[/{w}]",
	"/a", "/a.b",
	// custom regex on a variable whose name is also a global variable
	`/p/{num:[0-9]{2}}`, `/{any:\d+}`, `/a/{all:[a-z]+}`,
	// dynamic patterns without any variable (optional part only)
	"/ab[/x]", "/a[.html]", "/a/b[/c[/d]]",
	// variables that can span several segments without saying so with '.' or '/' in their regex
	`/f/{p:[^?#]+}`, `/w/{t:\S+}`, `/{ns:\D+}/{id:\d+}`, `/n/{v:\d.*\d}`,
	// variable names that differ from a global variable's only in case are ordinary variables
	"/f/{All}", "/i/{Num}",
	// custom regexes made of several non-capturing groups (sequence, alternation)
	`/i/{file:(?:[a-z]+)\.(?:jpg|png)}`, `/v/{ver:(?:v\d)|(?:new)}/d`,
}

// verifReconstruct rebuilds the path from the pattern and the reported
// values, including the first `levels` optional parts; ok is false when a
// variable of an included part is missing or a variable of an excluded part
// is not the empty string.
func verifReconstruct(pat string, ps Params, levels int) (out string, ok bool) {
	ok = true
	depth := 0
	i := 0
	for i < len(pat) {
		c := pat[i]
		switch {
		case c == '[':
			depth++
			i++
		case c == ']':
			depth--
			i++
		case c == '{':
			j := i + 1
			end := -1
			for j < len(pat) && pat[j] != '/' {
				if pat[j] == '}' {
					end = j
				}
				j++
			}
			body := pat[i+1 : end]
			name := body
			for k := 0; k < len(body); k++ {
				if body[k] == ':' {
					name = body[:k]
					break
				}
			}
			val := ps[name]
			if depth <= levels {
				out += val
			} else {
				ok = verifAnd(ok, val == "")
			}
			i = end + 1
		default:
			if depth <= levels {
				out += string(c)
			}
			i++
		}
	}
	return
}

func verifOptLevels(pat string) int {
	n := 0
	for i := 0; i < len(pat); i++ {
		if pat[i] == '[' {
			n++
		}
	}
	return n
}

// verifParamsOK is the C02 statement for one (pattern, path, params) triple.
func verifParamsOK(pat string, path string, ps Params) bool {
	_, vars := verifSpecParse(pat)
	// exactly the variable names
	ok := len(ps) == len(vars)
	for _, v := range vars {
		ok = verifAnd(ok, ps.Has(v.name))
	}
	if !ok {
		return false
	}
	any := false
	for lv := 0; lv <= verifOptLevels(pat); lv++ {
		s, good := verifReconstruct(pat, ps, lv)
		c := verifAnd(good, s == path)
		// values of present variables satisfy their regex
		depth := 0
		vi := 0
		for i := 0; i < len(pat); i++ {
			switch pat[i] {
			case '[':
				depth++
			case ']':
				depth--
			case '{':
				v := vars[vi]
				vi++
				if depth <= lv {
					c = verifAnd(c, regexp.MustCompile("^(?:"+v.regex+")$").MatchString(ps[v.name]))
				}
				end := i
				for j := i + 1; j < len(pat) && pat[j] != '/'; j++ {
					if pat[j] == '}' {
						end = j
					}
				}
				i = end
			}
		}
		any = verifOr(any, c)
	}
	return any
}

func verifHarness_C02_params() {
	pat := verifC02Pool[verifCfg()%len(verifC02Pool)]
	mode := verifCfg() / len(verifC02Pool) // 0 cache off, 1 cache on, 2 cache of capacity 1 with an eviction in between
	cached := mode >= 1
	var r *Router
	switch mode {
	case 1:
		r = New(EnableCaching)
	case 2:
		r = New(CachingWithNum(1))
	default:
		r = New()
	}
	rt := r.GET(pat, verifNop)
	p := verifNormalPath("p", verifParam("L"))
	got, ps, _ := r.QuickMatch("GET", p)
	if got == nil {
		verifAssert(verifNot(verifSpecMatches(pat, p)), "no route only if the pattern does not match")
		verifCover("C02 no match")
		return
	}
	if verifIsStaticPattern(pat) {
		verifAssert(got == rt, "static route returned")
		verifAssert(ps == nil, "a static route exposes no parameters")
		verifCover("C02 static")
		return
	}
	verifAssert(verifParamsOK(pat, p, ps), "params are the variable names and substitute back to the path, values satisfy their regex")
	verifCover("C02 dynamic match")
	// a HEAD request answered by this GET route gets the same parameters
	if mode == 0 {
		gh, psh, _ := r.QuickMatch("HEAD", p)
		verifAssert(gh != nil, "HEAD is answered by the GET route")
		verifAssert(verifParamsOK(pat, p, psh), "and reports the parameters of the path like GET does")
	}
	if mode == 2 {
		// another request of the same length in between (it may evict p's entry)
		q := verifNormalPathN("q", len(p))
		if gq, pq, _ := r.QuickMatch("GET", q); gq != nil && !verifIsStaticPattern(pat) {
			verifAssert(verifParamsOK(pat, q, pq), "params of the interleaved request satisfy the statement")
		}
	}
	if cached {
		got2, ps2, _ := r.QuickMatch("GET", p)
		verifAssert(got2 != nil, "repeat request still matches")
		verifAssert(verifParamsOK(pat, p, ps2), "params of the repeated (cached) request satisfy the same statement")
		same := len(ps2) == len(ps)
		for k, v := range ps {
			same = verifAnd(same, ps2[k] == v)
		}
		verifAssert(same, "repeated request reports the same parameter values")
		verifCover("C02 repeat on caching router")
	}
}


// Two routes with the same literal text and variable names but different
// variable regexes, for different methods: each route's values must satisfy
// its own regexes.
var verifC02Pairs = [][2]string{
	{`/a/{v:\d+}`, `/a/{v:[a-z]+}`}, {`/a/{v:[a-z]+}`, `/a/{v:\d+}`}, {"/a/{v}", `/a/{v:\d+}`}, {`/a/{v:\d+}`, "/a/{v}"},
	{`/{v:\d+}/{w}`, `/{v}/{w:[a-z]+}`}, {"/{v}", `/{v:[a-z]+}`}, {`/a/{v:\d+}[/{w}]`, `/a/{v:[a-z]+}[/{w}]`}, {"/{num}", `/{num:[a-z]+}`},
}

func verifHarness_C02_twoRoutes() {
	pair := verifC02Pairs[verifCfg()%len(verifC02Pairs)]
	r := New()
	first := r.GET(pair[0], verifNop)
	second := r.POST(pair[1], verifNop)
	p := verifNormalPath("p", verifParam("L"))
	for k, m := range []string{"GET", "POST"} {
		pat := pair[k]
		want := first
		if k == 1 {
			want = second
		}
		got, ps, _ := r.QuickMatch(m, p)
		if got == nil {
			verifAssert(verifNot(verifSpecMatches(pat, p)), "no route only if the method's own pattern does not match")
			continue
		}
		verifAssert(got == want, "the route registered for the method is selected")
		verifAssert(verifParamsOK(pat, p, ps), "the values satisfy the selected route's own regexes and substitute back to the path")
		if k == 1 {
			verifCover("C02 second route matched")
		}
	}
}

// With UseEncodedPath the router matches the escaped spelling of the request
// path; the values a handler sees are the substrings of that spelling the
// pattern captured (they substitute back to it) - on the first request and on
// a repeated (cached) one.
var verifC02EncPool = []string{"/{d}/{n}", "/f/{v}", `/{v:[a-z%0-9A-F]+}/x`, "/a/{file:.+}"}

func verifHarness_C02_encoded() {
	cfg := verifCfg()
	pat := verifC02EncPool[cfg%len(verifC02EncPool)]
	opts := []func(*Router){UseEncodedPath}
	if (cfg/len(verifC02EncPool))%2 == 1 {
		opts = append(opts, EnableCaching)
	}
	r := New(opts...)
	var seen []Params
	r.GET(pat, func(c *Context) {
		cp := Params{}
		for k, v := range c.Params {
			cp[k] = v
		}
		seen = append(seen, cp)
	})
	n := verifLen("plen", 1, verifParam("L"))
	tail := verifString("tail", n)
	verifAssume(verifAlphabet(tail, "/%25Ffab."))
	verifAssume(verifAnd(tail[0] != '/', tail[n-1] != '/'))
	p := "/" + tail // the escaped spelling
	dec, err := url.PathUnescape(p)
	verifAssume(err == nil)
	for round := 0; round < 2; round++ {
		req := verifRequest("GET", dec)
		if dec != p {
			req.URL.RawPath = p
		}
		r.ServeHTTP(verifNewWriter(), req)
	}
	if !verifSpecMatches(pat, p) {
		verifAssert(len(seen) == 0, "no handler runs for a path the pattern does not match")
		verifCover("C02 encoded: no match")
		return
	}
	verifAssert(len(seen) == 2, "both requests reach the route")
	if len(seen) == 2 {
		verifAssert(verifParamsOK(pat, p, seen[0]), "the handler's parameters are the captured substrings of the escaped path")
		same := len(seen[0]) == len(seen[1])
		for k, v := range seen[0] {
			same = verifAnd(same, seen[1][k] == v)
		}
		verifAssert(same, "a repeated request sees the same parameter values")
	}
	verifCover("C02 encoded: matched")
}
