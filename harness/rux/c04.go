package rux

// C04 — middleware runs in global -> group -> route -> handler onion order.

// verifOnion computes the specified trace of a chain: ids in chain order,
// nexts[i] = number of Next() calls of handler i.  (Ideal-integer statement
// of the onion rule: each handler at most once, code after Next() in reverse
// order, a handler that returns without Next() is followed by the rest.)
func verifOnion(ids []int, nexts []int) []int {
	var out []int
	pos := -1
	var next func()
	next = func() {
		pos++
		for pos < len(ids) {
			h := pos
			out = append(out, ids[h])
			for j := 0; j < nexts[h]; j++ {
				next()
			}
			out = append(out, -ids[h])
			pos++
		}
	}
	next()
	return out
}

type verifProg struct {
	tr     verifTrace
	nexts  map[int]int // behaviour per handler id (default: 1)
	nextID int
}

func (p *verifProg) mk(n int) ([]HandlerFunc, []int) {
	var hs []HandlerFunc
	var ids []int
	for i := 0; i < n; i++ {
		p.nextID++
		id := p.nextID
		ids = append(ids, id)
		hs = append(hs, func(c *Context) {
			p.tr.enter(id)
			k := p.behaviour(id)
			for j := 0; j < k; j++ {
				c.Next()
			}
			p.tr.leave(id)
		})
	}
	return hs, ids
}

func (p *verifProg) behaviour(id int) int {
	if k, ok := p.nexts[id]; ok {
		return k
	}
	return p.nexts[0]
}

func verifCat(xs ...[]int) []int {
	var out []int
	for _, x := range xs {
		out = append(out, x...)
	}
	return out
}

// The registration program family.  cfg selects how many middleware each
// Use/Group/route call gets (mixed radix); the expected chain of every route
// is computed from the program text, not from rux's slices.
func verifHarness_C04_onion() {
	cfg := verifCfg()
	dig := func(base int) int { d := cfg % base; cfg /= base; return d }
	a := dig(3)  // globals in the first Use
	a2 := dig(2) // globals in a second Use (len < cap afterwards)
	b := dig(3)  // variadic middleware of /r0
	c := dig(3)  // middleware of Group /g
	d := dig(2)  // variadic middleware of /g/r1
	e := dig(2)  // later Route.Use on /g/r1
	f := dig(2)  // Use inside the group
	i := dig(2)  // middleware of nested Group /h
	h := dig(2)  // global Use after the routes
	nf := dig(3) // custom NotFound handlers
	na := dig(2) // custom NotAllowed handler
	rootg := dig(2) // a top-level group on the root prefix "/" with a Use inside

	p := &verifProg{nexts: map[int]int{}}
	r := New(HandleMethodNotAllowed)
	g1h, g1 := p.mk(a)
	r.Use(g1h...)
	g2h, g2 := p.mk(a2)
	r.Use(g2h...)
	exp := map[string][]int{}
	main := func() (HandlerFunc, []int) { hs, ids := p.mk(1); return hs[0], ids }

	m0, m0id := main()
	r0h, r0 := p.mk(b)
	r.GET("/r0", m0, r0h...)
	exp["/r0"] = verifCat(r0, m0id)

	gh, gids := p.mk(c)
	r.Group("/g", func() {
		m1, m1id := main()
		r1h, r1 := p.mk(d)
		rt := r.GET("/r1", m1, r1h...)
		r1uh, r1u := p.mk(e)
		rt.Use(r1uh...)
		exp["/g/r1"] = verifCat(gids, r1, r1u, m1id)

		inh, inner := p.mk(f)
		r.Use(inh...)
		m2, m2id := main()
		r.GET("/r2", m2)
		exp["/g/r2"] = verifCat(gids, inner, m2id)

		hh, hids := p.mk(i)
		r.Group("/h", func() {
			m3, m3id := main()
			r.GET("/r3", m3)
			exp["/g/h/r3"] = verifCat(gids, inner, hids, m3id)
		}, hh...)

		m4, m4id := main()
		r.GET("/r4", m4)
		exp["/g/r4"] = verifCat(gids, inner, m4id)

		// a second Use of the group, after its nested group has returned
		in2h, inner2 := p.mk(i)
		r.Use(in2h...)
		inner = verifCat(inner, inner2)

		// sibling routes with their own middleware, registered after the group's chain has grown
		m8, m8id := main()
		r8h, r8 := p.mk(1)
		r.GET("/r8", m8, r8h...)
		exp["/g/r8"] = verifCat(gids, inner, r8, m8id)
		m9, m9id := main()
		r9h, r9 := p.mk(1 + d)
		r.GET("/r9", m9, r9h...)
		exp["/g/r9"] = verifCat(gids, inner, r9, m9id)

		// routes that already carry their middleware when they are registered
		m6, m6id := main()
		r6h, r6 := p.mk(1 + d)
		r.Any("/r6", m6, r6h...)
		exp["/g/r6"] = verifCat(gids, inner, r6, m6id)
		m7, m7id := main()
		r7h, r7 := p.mk(1 + e)
		r.AddRoute(NewRoute("/r7", m7, "GET").Use(r7h...))
		exp["/g/r7"] = verifCat(gids, inner, r7, m7id)
	}, gh...)

	// the custom fallback handlers are installed before or after the last global Use:
	// either way every global middleware runs around them
	var nfIDs, naIDs []int
	fallbacks := func() {
		if nf > 0 {
			var hs []HandlerFunc
			hs, nfIDs = p.mk(nf)
			r.NotFound(hs...)
		}
		if na > 0 {
			var hs []HandlerFunc
			hs, naIDs = p.mk(na)
			r.NotAllowed(hs...)
		}
	}
	fallbacksFirst := (a+b+c+d)%2 == 1
	if fallbacksFirst {
		fallbacks()
	}
	g3h, g3 := p.mk(h)
	r.Use(g3h...)
	m5, m5id := main()
	r.POST("/r5", m5)
	exp["/r5"] = m5id

	if rootg == 1 {
		rgh, rg := p.mk(1)
		r.Group("/", func() {
			ruh, ru := p.mk(1)
			r.Use(ruh...)
			mq, mqid := main()
			r.GET("/q1", mq)
			exp["/q1"] = verifCat(rg, ru, mqid)
		}, rgh...)
	}

	if !fallbacksFirst {
		fallbacks()
	}
	globals := verifCat(g1, g2, g3)

	targets := []string{"/r0", "/g/r1", "/g/r2", "/g/h/r3", "/g/r4", "/r5", "/nowhere", "/r0", "/g/r6", "/g/r7", "/g/r8", "/g/r9"}
	if rootg == 1 {
		targets = append(targets, "/q1")
	}
	t := verifChoice("target", len(targets))
	method := "GET"
	var chain []int
	switch {
	case t == 5:
		method = "POST"
		chain = verifCat(globals, exp["/r5"])
	case t == 6:
		chain = verifCat(globals, nfIDs)
	case t == 7:
		method = "POST" // /r0 exists for GET only: method not allowed
		if verifChoice("notAllowedBy", 2) == 1 {
			method = "OPTIONS" // answered 200 + Allow by the default handler; still a fallback inside the global middleware
		}
		chain = verifCat(globals, naIDs)
	default:
		chain = verifCat(globals, exp[targets[t]])
	}
	// behaviours: every handler calls Next() kd times; one deviant handler
	p.nexts[0] = verifChoice("default", 3)
	plain := p.nexts[0] == 1
	if len(chain) > 0 {
		dv := verifChoice("deviant", len(chain)+1)
		if dv < len(chain) {
			p.nexts[chain[dv]] = verifChoice("deviantNexts", 3)
			plain = false
		}
	}
	nexts := make([]int, len(chain))
	for k, id := range chain {
		nexts[k] = p.behaviour(id)
	}
	// earlier requests on the same router (and, through the pool, the same context) change nothing
	// (explored for the plain behaviour only: every handler calls Next() once)
	hist := 0
	if plain {
		hist = verifChoice("history", 3)
	}
	switch hist {
	case 1:
		r.ServeHTTP(verifNewWriter(), verifRequest("GET", "/nowhere"))
	case 2:
		r.ServeHTTP(verifNewWriter(), verifRequest("GET", "/nowhere"))
		r.ServeHTTP(verifNewWriter(), verifRequest("POST", "/r5"))
		r.ServeHTTP(verifNewWriter(), verifRequest("POST", "/r0"))
	}
	p.tr.ev = nil
	rec := verifNewWriter()
	r.ServeHTTP(rec, verifRequest(method, targets[t]))
	want := verifOnion(chain, nexts)
	if (t == 6 && nf == 0) || (t == 7 && na == 0) {
		// default fallback handlers are not traced: only the global middleware is
		verifAssert(verifSameInts(p.tr.ev, want), "global middleware runs around the default fallback handler")
		if t == 6 {
			verifAssert(rec.whStatus == 404, "default not-found answer")
		} else if method == "OPTIONS" {
			verifAssert(rec.whStatus == 200 && rec.hdr.Get("Allow") == "GET", "default answer to OPTIONS: 200 with the Allow header")
		} else {
			verifAssert(rec.whStatus == 405, "default method-not-allowed answer")
		}
	} else {
		verifAssert(verifSameInts(p.tr.ev, want), "handlers run in global -> group -> route -> main onion order, each at most once")
	}
	verifCover("C04 program run")
}

// D8 witness (known finding): 45 route middleware that each call Next() twice
// overflow the int8 chain cursor and index handlers[-128].
func verifHarness_C04_D8_witness() {
	p := &verifProg{nexts: map[int]int{0: 2}}
	r := New()
	hs, _ := p.mk(45)
	m, _ := p.mk(1)
	r.GET("/x", m[0], hs...)
	k := verifCatch(func() { r.ServeHTTP(verifNewWriter(), verifRequest("GET", "/x")) })
	verifAssert(k == "", "serving an accepted chain does not panic (46 handlers calling Next twice)")
}

// Cursor arithmetic on longer chains, kept below the known D8/D9 class
// (total cursor growth 3n < 63): n <= 20 handlers, every handler calls
// Next() kd times, one deviant.
func verifHarness_C04_cursor() {
	n := 8 + verifChoice("n", 13) // 8..20
	g := verifChoice("globals", 3)
	p := &verifProg{nexts: map[int]int{}}
	r := New()
	gh, gids := p.mk(g)
	r.Use(gh...)
	mh, mids := p.mk(n - g - 1)
	m, mid := p.mk(1)
	r.GET("/x", m[0], mh...)
	chain := verifCat(gids, mids, mid)
	p.nexts[0] = verifChoice("default", 3)
	dv := verifChoice("deviant", 3)
	pos := []int{0, n / 2, n - 1}[dv]
	p.nexts[chain[pos]] = verifChoice("deviantNexts", 3)
	nexts := make([]int, len(chain))
	for k, id := range chain {
		nexts[k] = p.behaviour(id)
	}
	k := verifCatch(func() { r.ServeHTTP(verifNewWriter(), verifRequest("GET", "/x")) })
	verifAssert(k == "", "no panic")
	verifAssert(verifSameInts(p.tr.ev, verifOnion(chain, nexts)), "onion order on a long chain")
	verifCover("C04 long chain")
}

// Long flat chains (round 14, C04-I): 60..70 handlers in total, built from
// global, group and route middleware, nobody calls Next() — the outer loop of
// Next alone walks the whole chain.  These chains are accepted by
// registration (the limit counts group + route handlers only) and involve no
// nested cursor growth, so they lie outside the known D8/D9 class.
func verifHarness_C04_longFlat() {
	n := []int{61, 62, 63, 64, 65, 70}[verifChoice("n", 6)] // handlers in total (fewer when registration's own limit caps the route part)
	g := []int{0, 2, 8, 9}[verifChoice("globals", 4)]
	grp := verifChoice("groupMw", 2)
	p := &verifProg{nexts: map[int]int{0: 0}}
	r := New()
	gh, gids := p.mk(g)
	if g > 0 {
		r.Use(gh...)
	}
	gm, gmids := p.mk(grp)
	nmw := n - g - grp - 1
	if grp+nmw+1 > 62 { // registration accepts group + route + main handlers up to 62
		nmw = 61 - grp
	}
	mh, mids := p.mk(nmw)
	m, mid := p.mk(1)
	r.Group("/g", func() {
		r.GET("/x", m[0], mh...)
	}, gm...)
	chain := verifCat(gids, gmids, mids, mid)
	nexts := make([]int, len(chain))
	k := verifCatch(func() { r.ServeHTTP(verifNewWriter(), verifRequest("GET", "/g/x")) })
	verifAssert(k == "", "no panic on a long flat chain")
	verifAssert(verifSameInts(p.tr.ev, verifOnion(chain, nexts)), "every handler of a long chain runs once, in order, when nobody calls Next()")
	verifCover("C04 long flat chain")
}

// Middleware added between two requests (round 14, C04-J): Route.Use and
// Router.Use after the route has already served a request take effect for the
// next request — the chain is composed per request from the current lists.
func verifHarness_C04_useBetweenRequests() {
	g := verifChoice("globals", 3)
	rm := verifChoice("routeMw", 3)
	lateRoute := verifChoice("lateRouteUse", 3)
	lateGlobal := verifChoice("lateGlobalUse", 2)
	grp := verifChoice("inGroup", 2)
	p := &verifProg{nexts: map[int]int{0: 1}}
	r := New()
	gh, gids := p.mk(g)
	if g > 0 {
		r.Use(gh...)
	}
	mh, mids := p.mk(rm)
	m, mid := p.mk(1)
	var route *Route
	var gmids []int
	path := "/x"
	if grp == 1 {
		gm, ids := p.mk(1)
		gmids = ids
		r.Group("/g", func() { route = r.GET("/x", m[0], mh...) }, gm...)
		path = "/g/x"
	} else {
		route = r.GET("/x", m[0], mh...)
	}
	serve := func(chain []int, what string) {
		p.tr.ev = nil
		nexts := make([]int, len(chain))
		for i := range nexts {
			nexts[i] = 1
		}
		k := verifCatch(func() { r.ServeHTTP(verifNewWriter(), verifRequest("GET", path)) })
		verifAssert(k == "", "no panic")
		verifAssert(verifSameInts(p.tr.ev, verifOnion(chain, nexts)), what)
	}
	serve(verifCat(gids, gmids, mids, mid), "onion order on the first request")
	lh, lids := p.mk(lateRoute)
	if lateRoute > 0 {
		route.Use(lh...)
	}
	lg, lgids := p.mk(lateGlobal)
	if lateGlobal > 0 {
		r.Use(lg...)
	}
	want := verifCat(gids, lgids, gmids, mids, lids, mid)
	serve(want, "middleware added by Route.Use / Router.Use after a request runs on the next request, in onion order")
	serve(want, "and on the request after that")
	verifCover("C04 use between requests")
}
