package rux

// C18 (context shortcuts): Bind / AutoBind / ShouldBind / MustBind /
// BindJSON / BindXML / BindForm / Validate hand the context's own request to
// the binder they name, return (or panic with) its error, and validate after
// decoding when a validator is enabled.
//
// Symbolically the decoders and gookit/validate are boundary stubs whose
// outcome the harness chooses (ghost flags) and whose calls are logged;
// natively the body is crafted so that the real decoder / validator has the
// chosen outcome.

import (
	"net/http"
	"net/url"
	"strings"

	"github.com/gookit/rux/pkg/binding"
)

type verifBindUser struct {
	Name string `form:"name" json:"name" xml:"name" query:"name" validate:"required"`
}

type verifC18Body struct{ r *strings.Reader }

func (b *verifC18Body) Read(p []byte) (int, error) { return b.r.Read(p) }
func (b *verifC18Body) Close() error               { return nil }

func verifHarness_C18_shortcuts() {
	api := verifChoice("api", 9) // Bind, AutoBind, ShouldBind(JSON), ShouldBind(XML), MustBind(JSON), BindJSON, BindXML, BindForm, Validate
	ctKind := verifChoice("contentType", 4)
	// (parameters keep their spelling: a multipart boundary, for one, is case-sensitive)
	ct := []string{"application/json; Charset=UTF-8", "text/xml; charset=utf-8", "application/x-www-form-urlencoded", "text/plain; Format=Flowed"}[ctKind]
	if api == 7 {
		// BindForm reads what net/http's ParseForm produces, which takes a body only with this type
		verifAssume(ctKind == 2)
	}
	validator := verifChoice("validator", 2) == 1
	decodeKind := verifChoice("decodeFails", 3) // 0 decodes, 1 malformed body, 2 empty body (io.EOF) while the URL has a query string
	decodeFails := decodeKind != 0
	validateFails := verifChoice("validateFails", 2) == 1
	if validator {
		binding.ResetValidator()
	} else {
		binding.DisableValidator()
	}
	defer binding.ResetValidator()

	// which format is decoded (specification)
	format := ""
	switch api {
	case 0, 1:
		format = []string{"json", "xml", "form", ""}[ctKind]
	case 2, 4, 5:
		format = "json"
	case 3, 6:
		format = "xml"
	case 7:
		format = "form"
	}
	if format == "form" || api == 8 {
		decodeFails = false // (formam accepts every key/value list for this struct; Validate decodes nothing)
	}
	name := "n"
	if validateFails {
		name = "" // violates `required`
	}
	body := ""
	switch format {
	case "json":
		body = `{"name":"` + name + `"}`
		if decodeFails {
			body = "{"
		}
	case "xml":
		body = "<verifBindUser><name>" + name + "</name></verifBindUser>"
		if decodeFails {
			body = "<verifBindUser"
		}
	case "form":
		body = "name=" + name
	}
	if !decodeFails {
		decodeKind = 0
	}
	for _, k := range []string{"json.Decode", "xml.Decode", "formam.Decode"} {
		if decodeKind == 2 {
			verifSetGhost("err."+k, "EOF")
		} else {
			verifSetGhost("err."+k, decodeFails)
		}
	}
	if decodeKind == 2 {
		body = ""
	}
	verifSetGhost("err.ParseForm", false)
	verifSetGhost("err.Validate", validateFails)

	req := &http.Request{Method: "POST", URL: &url.URL{Path: "/b"}, Header: http.Header{"Content-Type": {ct}}}
	if decodeKind == 2 {
		req.URL.RawQuery = "name=fromquery"
	}
	req.Body = &verifC18Body{strings.NewReader(body)}
	if verifSymbolic() {
		req.PostForm = url.Values{"name": {name}}
		req.Form = url.Values{"name": {name}}
	}
	obj := verifBindUser{}
	if api == 8 {
		obj.Name = name
	}
	var err error
	returned := false
	r := New()
	r.POST("/b", func(c *Context) {
		switch api {
		case 0:
			err = c.Bind(&obj)
		case 1:
			err = c.AutoBind(&obj)
		case 2:
			err = c.ShouldBind(&obj, binding.JSON)
		case 3:
			err = c.ShouldBind(&obj, binding.XML)
		case 4:
			c.MustBind(&obj, binding.JSON)
		case 5:
			err = c.BindJSON(&obj)
		case 6:
			err = c.BindXML(&obj)
		case 7:
			err = c.BindForm(&obj)
		case 8:
			err = c.Validate(&obj)
		}
		returned = true
	})
	verifEventsReset()
	k := verifCatch(func() { r.ServeHTTP(verifNewWriter(), req) })

	verifAssert(len(req.Header["Content-Type"]) == 1 && req.Header["Content-Type"][0] == ct, "binding leaves the request's Content-Type header as it was sent")
	shouldFail := format == "" && api != 8
	if format != "" {
		shouldFail = decodeFails
	}
	if !shouldFail && validator && validateFails {
		shouldFail = true
	}
	if api == 4 {
		verifAssert(verifIff(k == "panic", shouldFail) && k != "runtime", "MustBind panics exactly when binding or validation fails")
		verifAssert(returned == !shouldFail, "MustBind returns only on success")
	} else {
		verifAssert(k == "", "the binding shortcuts do not panic")
		verifAssert((err != nil) == shouldFail, "a shortcut returns an error exactly when its binder or the validator fails")
	}
	if !verifSymbolic() {
		if !shouldFail && api != 8 {
			verifAssert(obj.Name == name, "the value is bound from the request body in the named format")
		}
		if shouldFail && decodeFails {
			verifAssert(obj.Name == "", "a body that does not decode binds nothing (the query string is not a fallback)")
		}
		verifCover("C18 shortcut")
		return
	}
	nJSON, nXML, nForm, nParse := verifCountEvents("json.Decode"), verifCountEvents("xml.Decode"), verifCountEvents("formam.Decode"), verifCountEvents("ParseForm")
	nVal := verifCountEvents("Validate")
	want := map[string][4]int{"json": {1, 0, 0, 0}, "xml": {0, 1, 0, 0}, "form": {0, 0, 1, 1}, "": {0, 0, 0, 0}}[format]
	verifAssert(nJSON == want[0] && nXML == want[1] && nForm == want[2] && nParse == want[3], "exactly the decoder of the named (or selected) format reads the request")
	verifAssert(verifCountEvents("URL.Query") == 0, "the query string is not a source of a request with a body")
	reached := !decodeFails && (format != "" || api == 8)
	if validator && reached {
		verifAssert(nVal == 1 && verifEventKind(verifEventCount()-1) == "Validate", "validation runs once, after decoding")
	} else {
		verifAssert(nVal == 0, "no validation when the validator is off or decoding failed")
	}
	verifCover("C18 shortcut")
}
