package rux

// Reference specification of the documented route-pattern grammar, written
// from the README and the property text.  It shares no code with
// parseParamRoute / quotePointChar / checkAndParseOptional / isFixedPath /
// appendRoute: a pattern is translated to an anchored regular expression by
// the little parser below, and membership is Go's regexp (natively: the real
// package; symbolically: the engine's membership formula over the path bytes).

import "regexp"

type verifVar struct {
	name  string
	regex string // the variable's own regex
	opt   bool   // inside an optional [...] part
}

// verifSpecGlobal lists the documented global variables.
func verifSpecGlobal(name string) (string, bool) {
	switch name {
	case "all":
		return `.*`, true
	case "any":
		return `[^/]+`, true
	case "num":
		return `[1-9][0-9]*`, true
	}
	return "", false
}

func verifIsMeta(c byte) bool {
	switch c {
	case '.', '+', '*', '?', '(', ')', '|', '^', '$', '\\':
		return true
	}
	return false
}

// verifSpecParse translates a pattern into (regex with one capture group per
// variable, variables in order).
func verifSpecParse(pat string) (string, []verifVar) {
	re := "^"
	var vars []verifVar
	depth := 0
	i := 0
	for i < len(pat) {
		c := pat[i]
		switch {
		case c == '[':
			re += "(?:"
			depth++
			i++
		case c == ']':
			re += ")?"
			depth--
			i++
		case c == '{':
			// variable: up to the last '}' of this segment
			j := i + 1
			end := -1
			for j < len(pat) && pat[j] != '/' {
				if pat[j] == '}' {
					end = j
				}
				j++
			}
			body := pat[i+1 : end]
			name, vre := body, ""
			for k := 0; k < len(body); k++ {
				if body[k] == ':' {
					name, vre = body[:k], body[k+1:]
					break
				}
			}
			if vre == "" {
				if g, ok := verifSpecGlobal(name); ok {
					vre = g
				} else {
					vre = `[^/]+`
				}
			}
			vars = append(vars, verifVar{name: name, regex: vre, opt: depth > 0})
			re += "(" + vre + ")"
			i = end + 1
		default:
			if verifIsMeta(c) {
				re += "\\"
			}
			re += string(c)
			i++
		}
	}
	return re + "$", vars
}

func verifIsStaticPattern(pat string) bool {
	for i := 0; i < len(pat); i++ {
		if pat[i] == '{' || pat[i] == '[' {
			return false
		}
	}
	return true
}

// verifSpecTier: 0 static, 1 dynamic beginning with a complete literal first
// segment followed by '/', 2 other dynamic.
func verifSpecTier(pat string) int {
	if verifIsStaticPattern(pat) {
		return 0
	}
	for i := 1; i < len(pat); i++ {
		switch pat[i] {
		case '/':
			if i > 1 {
				return 1
			}
			return 2
		case '{', '[':
			return 2
		}
	}
	return 2
}

// verifSpecMatches: does the pattern match the whole path?
func verifSpecMatches(pat string, path string) bool {
	if verifIsStaticPattern(pat) {
		return pat == path
	}
	re, _ := verifSpecParse(pat)
	return regexp.MustCompile(re).MatchString(path)
}

func verifHasMethod(ms []string, m string) bool {
	for _, x := range ms {
		if x == m {
			return true
		}
	}
	return false
}


// Optional white-box probes (set by probes_wb.go; nil when that file does not
// compile against the tree under test).
var (
	verifCacheLen   func(r *Router) int
	verifGroupState func(r *Router) (string, HandlersChain)
)
