package rux

// C15 — a URL built for a named route is routed back to that route.

import (
	"math"
	"net/url"
	"regexp"
)

var verifC15Pool = []string{
	"/a", "/a/b.c",
	"/a/{v}", `/a/{v:\d+}`, "/a/{v}/b", "/a/{v}.x", "/ab/{v:[a-z]+}", "/v1.0/{v}", "/a/b{v}", "/a/{v}/{w}",
	"/{v}", "/{v}/b", "/x{v}", "/{num}", "/{v}.x", `/{v:\d+}/{w:[a-z]+}/{u}`, "/{v}-{w}", "/{w}/{v}", `/u/{v}/{w:[a-z0-9{}]+}`,
	`/f/{v}/{w:.+}`, "/{num}/{number:.+}", `/p/{v:.+}/end`,
}

// verifValueFor: a symbolic value satisfying the variable's regex.
func verifValueFor(v verifVar, L int, last bool) string {
	n := verifLen("len_"+v.name, 1, L)
	s := verifString("val_"+v.name, n)
	verifAssume(regexp.MustCompile("^(?:" + v.regex + ")$").MatchString(s))
	if last {
		// bound: the request path's normalisation must not eat the end of the value
		c := s[n-1]
		verifAssume(verifAnd(c != '/', verifOr(verifAnd(c > 0x20, c < 0x80), c >= 0xB0)))
	}
	return s
}

func verifHarness_C15_buildURL() {
	cfg := verifCfg()
	pat := verifC15Pool[cfg%len(verifC15Pool)]
	style := (cfg / len(verifC15Pool)) % 3
	verifMapOrder((cfg / (3 * len(verifC15Pool))) % 4)
	r := New()
	// a decoy route; its literal segment is longer than any value the bounds allow, so that no
	// built path can fall under it (a path that an earlier route of the table also matches goes
	// to that route by the priority rules of C01 - no BuildURL could change that)
	r.GET("/otherroute/{x}", verifNop).NamedTo("decoy", r)
	var rt *Route
	switch cfg % 3 {
	case 0:
		rt = r.AddNamed("target", pat, verifNop, "GET")
	case 1:
		rt = NewNamedRoute("target", pat, verifNop, "GET")
		r.AddRoute(rt)
	case 2:
		rt = r.GET(pat, verifNop)
		rt.NamedTo("target", r)
	}
	_, vars := verifSpecParse(pat)
	endsWithVar := len(pat) > 0 && pat[len(pat)-1] == '}'
	vals := make([]string, len(vars))
	for i, v := range vars {
		vals[i] = verifValueFor(v, verifParam("L"), endsWithVar && i == len(vars)-1)
	}
	var u interface{ String() string }
	_ = u
	// the additional (query) argument: an unrelated key, or - a key is a variable only when it is
	// written with braces - the bare name of a variable, or a prefix of one
	qkey := "page"
	if len(vars) > 0 && style != 2 {
		switch verifChoice("qkey", 3) {
		case 1:
			qkey = vars[0].name
		case 2:
			qkey = vars[len(vars)-1].name[:1]
		}
		// (a name that itself contains a brace, as in "/{v}-{w}", is not a bare name)
		for i := 0; i < len(qkey); i++ {
			if qkey[i] == '{' || qkey[i] == '}' {
				qkey = "page"
				break
			}
		}
	}
	var path, query string
	k := verifCatch(func() {
		switch style {
		case 0: // M map
			m := M{qkey: "2"}
			for i, v := range vars {
				m["{"+v.name+"}"] = vals[i]
			}
			x := r.BuildURL("target", m)
			path, query = x.Path, x.RawQuery
		case 1: // key/value pairs
			args := []any{qkey, "2"}
			for i, v := range vars {
				args = append(args, "{"+v.name+"}", vals[i])
			}
			x := r.BuildURL("target", args...)
			path, query = x.Path, x.RawQuery
		case 2: // builder - one that has already built the URL of another route
			b := NewBuildRequestURL()
			_ = r.BuildURL("decoy", b.Params(M{"{x}": "1"}))
			m := M{}
			for i, v := range vars {
				m["{"+v.name+"}"] = vals[i]
			}
			b.Params(m)
			b.Queries(map[string][]string{"page": {"2"}})
			x := r.BuildURL("target", b)
			path, query = x.Path, x.RawQuery
		}
	})
	verifAssert(k == "", "building the URL of an existing named route does not panic")
	verifAssert(query == qkey+"=2", "additional non-variable arguments appear as query parameters")
	got, ps, _ := r.QuickMatch("GET", path)
	verifAssert(got == rt, "the built path is dispatched to the same route")
	same := len(ps) == len(vars)
	for i, v := range vars {
		same = verifAnd(same, ps[v.name] == vals[i])
	}
	if got == rt {
		verifAssert(same, "the route receives exactly the given values as parameters")
	}
	verifCover("C15 url built")
}

// GetRoute(name) returns the route most recently registered under that name,
// whichever naming API was used.
func verifHarness_C15_getRoute() {
	r := New()
	api := func(k int, path string) *Route {
		switch k {
		case 0:
			return r.AddNamed("userShow", path, verifNop, "GET")
		case 1:
			rt := NewNamedRoute("userShow", path, verifNop, "GET")
			r.AddRoute(rt)
			return rt
		case 2:
			rt := r.GET(path, verifNop)
			rt.NamedTo("userShow", r)
			return rt
		}
		rt := NamedRoute(" userShow ", path, verifNop)
		rt.AttachTo(r)
		return rt
	}
	first := api(verifChoice("first", 4), "/one")
	verifAssert(r.GetRoute("userShow") == first, "GetRoute returns the named route")
	second := api(verifChoice("second", 4), "/two/{v}")
	verifAssert(r.GetRoute("userShow") == second, "GetRoute returns the route most recently registered under the name")
	// renaming the older route afterwards must not disturb the name's current owner
	if verifChoice("renameFirst", 2) == 1 {
		first.NamedTo("other", r)
		verifAssert(r.GetRoute("other") == first, "a renamed route is found under its new name")
		verifAssert(r.GetRoute("userShow") == second, "renaming an older route leaves the most recent registration under the name")
	}
	// A - B - A: the first route takes the name back; the most recent registration under the name wins again
	if verifChoice("takeBack", 2) == 1 {
		back := first
		if verifChoice("takeBackWho", 2) == 1 {
			back = second
		}
		back.NamedTo("userShow", r)
		verifAssert(r.GetRoute("userShow") == back, "a route that is (re-)named to a name owns it, also when it carried that name before")
		k := verifCatch(func() {
			u := r.BuildURL("userShow", "{v}", "7")
			want := "/one"
			if back == second {
				want = "/two/7"
			}
			verifAssert(u.Path == want, "BuildURL follows the name's current owner")
		})
		verifAssert(k == "", "building the URL of the name's owner does not panic")
	}
	verifAssert(r.GetRoute("nope") == nil, "unknown names give nil")
	verifCover("C15 getRoute")
}

// A URL built for a route before the route is attached (or before it moves
// under a group prefix) must not fix what later builds return: BuildURL
// always reflects the route as it is registered now.
func verifHarness_C15_buildBeforeAttach() {
	cfg := verifCfg()
	pat := []string{"/u/{v}", "/u", `/u/{v:\d+}`, "/u/{v}/{w}"}[cfg%4]
	early := (cfg/4)%2 == 1
	how := (cfg / 8) % 2 // 0: NewNamedRoute + AddRoute in the group, 1: NewRoute.NamedTo(r) first, attached in the group later
	r := New()
	var rt *Route
	if how == 0 {
		rt = NewNamedRoute("n", pat, verifNop, "GET")
	} else {
		rt = NewRoute(pat, verifNop, "GET")
		rt.NamedTo("n", r)
	}
	args := []any{"{v}", "7", "{w}", "8"}
	if early {
		// a URL asked for too early describes the route as it is then; it must not stick
		_ = verifCatch(func() { _ = rt.ToURL(args...) })
		if how == 1 {
			_ = verifCatch(func() { _ = r.BuildURL("n", args...) })
		}
	}
	r.Group("/api", func() { r.AddRoute(rt) })
	want := map[string]string{"/u/{v}": "/api/u/7", "/u": "/api/u", `/u/{v:\d+}`: "/api/u/7", "/u/{v}/{w}": "/api/u/7/8"}[pat]
	var got string
	k := verifCatch(func() { got = r.BuildURL("n", args...).Path })
	verifAssert(k == "", "building the URL of a registered named route does not panic")
	verifAssert(got == want, "the URL is built from the route as registered (group prefix included), whatever was built earlier")
	m, _, _ := r.QuickMatch("GET", got)
	verifAssert(m == rt, "and is routed back to the route")
	verifCover("C15 build before attach")
}


// Arguments of any integer type are written in decimal, at the edges of their
// types too, and the URL is routed back with that text as the parameter.
func verifHarness_C15_numericArgs() {
	vals := []any{uint64(1) << 63, uint64(math.MaxUint64), uint(1) << 63, int64(math.MaxInt64), uint32(math.MaxUint32), uint8(255), int(0), int16(math.MaxInt16), uint64(math.MaxInt64)}
	texts := []string{"9223372036854775808", "18446744073709551615", "9223372036854775808", "9223372036854775807", "4294967295", "255", "0", "32767", "9223372036854775807"}
	k := verifChoice("value", len(vals))
	style := verifChoice("style", 3)
	r := New()
	rt := r.GET(`/items/{id:\d+}`, verifNop)
	rt.NamedTo("item", r)
	var path, query string
	c := verifCatch(func() {
		var u *url.URL
		switch style {
		case 0:
			u = r.BuildURL("item", "{id}", vals[k], "n", vals[k])
		case 1:
			u = r.BuildURL("item", M{"{id}": vals[k], "n": vals[k]})
		default:
			b := NewBuildRequestURL()
			b.Params(M{"{id}": vals[k]})
			u = r.BuildURL("item", b)
		}
		path, query = u.Path, u.RawQuery
	})
	verifAssert(c == "", "building a URL from an integer argument does not panic")
	verifAssert(path == "/items/"+texts[k], "an integer argument is written in decimal")
	if style != 2 {
		verifAssert(query == "n="+texts[k], "also as a query argument")
	}
	got, ps, _ := r.QuickMatch("GET", path)
	verifAssert(got == rt && ps["id"] == texts[k], "and the URL is routed back with that value")
	verifCover("C15 numeric argument")
}
