package rux

// C11 — registration and lookup normalise paths identically.
//
// Oracle: verifSpecNorm, a single-pass normaliser written from the property
// text (trim Unicode white space, drop trailing slashes unless strict,
// collapse/repair the leading slash).  It shares no code with formatPath /
// simpleFmtPath / package strings.

import "net/url"

func verifAlphabet(s string, alpha string) bool {
	ok := true
	for i := 0; i < len(s); i++ {
		in := false
		for j := 0; j < len(alpha); j++ {
			in = verifOr(in, s[i] == alpha[j])
		}
		ok = verifAnd(ok, in)
	}
	return ok
}

// verifSpaceLen returns the byte length of the white-space rune starting at
// s[i] (inside s[:end]), or 0.  One branch per token length.
func verifSpaceLen(s string, i, end int) int {
	c := s[i]
	if verifOr(c == ' ', verifAnd(c >= '\t', c <= '\r')) {
		return 1
	}
	if i+1 < end {
		d := s[i+1]
		if verifAnd(c == 0xC2, verifOr(d == 0x85, d == 0xA0)) {
			return 2
		}
	}
	if i+2 < end {
		d, e := s[i+1], s[i+2]
		t1 := verifAnd(c == 0xE1, verifAnd(d == 0x9A, e == 0x80))
		e2 := verifOr(verifAnd(e >= 0x80, e <= 0x8A), verifOr(e == 0xA8, verifOr(e == 0xA9, e == 0xAF)))
		t2 := verifAnd(c == 0xE2, verifOr(verifAnd(d == 0x80, e2), verifAnd(d == 0x81, e == 0x9F)))
		t3 := verifAnd(c == 0xE3, verifAnd(d == 0x80, e == 0x80))
		if verifOr(t1, verifOr(t2, t3)) {
			return 3
		}
	}
	return 0
}

func verifSpecNorm(s string, strict bool) string {
	a, b := 0, len(s)
	for a < b {
		n := verifSpaceLen(s, a, b)
		if n == 0 {
			break
		}
		a += n
	}
	for b > a {
		n := 0
		if verifSpaceLen(s, b-1, b) == 1 {
			n = 1
		} else if b-2 >= a && verifSpaceLen(s, b-2, b) == 2 {
			n = 2
		} else if b-3 >= a && verifSpaceLen(s, b-3, b) == 3 {
			n = 3
		}
		if n == 0 {
			break
		}
		b -= n
	}
	if !strict {
		for b > a && s[b-1] == '/' {
			b--
		}
	}
	for a < b && s[a] == '/' {
		a++
	}
	return "/" + s[a:b]
}

func verifC11Input(label string) string {
	n := verifLen(label+"_len", 0, verifParam("L"))
	p := verifString(label, n)
	if verifParam("fullAlphabet") == 0 {
		verifAssume(verifAlphabet(p, "/ .%ab\t\xc2\xa0"))
	}
	return p
}

// formatPath is total and equals the specified normal form.
func verifHarness_C11_formatPath() {
	strict := verifChoice("strict", 2) == 1
	// the normal form does not depend on any other option
	var opts []func(*Router)
	if strict {
		opts = append(opts, StrictLastSlash)
	}
	switch verifChoice("otherOption", 4) {
	case 1:
		opts = append(opts, UseEncodedPath)
	case 2:
		opts = append(opts, EnableCaching, HandleMethodNotAllowed)
	case 3:
		opts = append(opts, HandleFallbackRoute)
	}
	r := New(opts...)
	p := verifC11Input("p")
	var q string
	k := verifCatch(func() { q = r.formatPath(p) })
	verifAssert(k == "", "formatPath is total (no panic)")
	verifAssert(q == verifSpecNorm(p, strict), "formatPath(p) is the specified normal form")
	verifCover("C11 formatPath compared")
	verifObserve("q", q)
}

// simpleFmtPath (route creation) is total and never changes the normal form.
func verifHarness_C11_simpleFmtPath() {
	strict := verifChoice("strict", 2) == 1
	p := verifC11Input("P")
	var s string
	k := verifCatch(func() { s = simpleFmtPath(p) })
	verifAssert(k == "", "simpleFmtPath is total (no panic)")
	verifAssert(verifSpecNorm(s, strict) == verifSpecNorm(p, strict), "pre-normalisation keeps the normal form")
	verifCover("C11 simpleFmtPath compared")
	verifObserve("s", s)
}

func verifNoMeta(s string) bool {
	ok := true
	for i := 0; i < len(s); i++ {
		ok = verifAnd(ok, verifAnd(s[i] != '{', s[i] != '['))
	}
	return ok
}

// A static route registered as P (optionally inside a group G) is reached by
// request path p iff both have the same normal form.
func verifHarness_C11_matchEquiv() {
	strict := verifChoice("strict", 2) == 1
	var r *Router
	if strict {
		r = New(StrictLastSlash)
	} else {
		r = New()
	}
	groupedN := verifChoice("grouped", 3) // 0 no group, 1 one group, 2 two nested groups
	grouped := groupedN == 1
	P := verifC11Input("P")
	verifAssume(verifNoMeta(P))
	var rt *Route
	want := ""
	if groupedN == 2 {
		// nested groups: short prefixes (the product of three full-length strings is out of the quick budget)
		G := verifString("G", verifLen("G_len", 0, 1))
		verifAssume(verifAlphabet(G, "/ a."))
		n2 := verifLen("G2_len", 0, 1)
		G2 := verifString("G2", n2)
		verifAssume(verifAlphabet(G2, "/ a"))
		k := verifCatch(func() {
			r.Group(G, func() { r.Group(G2, func() { rt = r.GET(P, func(c *Context) {}) }) })
		})
		verifAssert(k == "", "registration of a fixed path inside nested groups does not panic")
		inner := verifSpecNorm(verifSpecNorm(G, strict)+verifSpecNorm(G2, strict), strict)
		_ = inner
		want = verifSpecNorm(verifSpecNorm(G, strict)+verifSpecNorm(G2, strict)+verifSpecNorm(P, strict), strict)
	} else if grouped {
		G := verifC11Input("G")
		verifAssume(verifNoMeta(G))
		k := verifCatch(func() {
			r.Group(G, func() { rt = r.GET(P, func(c *Context) {}) })
		})
		verifAssert(k == "", "registration of a fixed path inside a group does not panic")
		want = verifSpecNorm(verifSpecNorm(G, strict)+verifSpecNorm(P, strict), strict)
	} else {
		k := verifCatch(func() { rt = r.GET(P, func(c *Context) {}) })
		verifAssert(k == "", "registration of a fixed path does not panic")
		want = verifSpecNorm(P, strict)
	}
	p := verifC11Input("p")
	var got *Route
	k := verifCatch(func() { got, _, _ = r.Match("GET", p) })
	verifAssert(k == "", "lookup never panics")
	same := verifSpecNorm(p, strict) == want
	verifAssert(verifIff(got == rt, same), "route reached iff request and registered path have the same normal form")
	verifAssert(verifOr(got == rt, got == nil), "no other route can be returned")
	verifCover("C11 match compared")
	verifObserve("hit", got == rt)
}

var verifC11Encoded = [][2]string{ // decoded path, raw (escaped) path
	{"/a b", "/a%20b"}, {"/a/b", "/a%2Fb"}, {"/x", ""}, {"/é", "/%C3%A9"}, {"/a%b", "/a%25b"},
	{"/a/b", "/a%2fb"}, {"/é", "/%c3%a9"}, {"/x:y", "/x%3ay"},
}

// Matching uses the decoded URL path, or the escaped path when UseEncodedPath
// is set.
func verifHarness_C11_encodedPath() {
	pair := verifC11Encoded[verifCfg()%len(verifC11Encoded)]
	enc := verifChoice("useEncodedPath", 2) == 1
	var r *Router
	if enc {
		r = New(UseEncodedPath)
	} else {
		r = New()
	}
	ran := ""
	seenPath := ""
	r.GET(pair[0], func(c *Context) { ran = "decoded"; seenPath, _ = c.SafeGet(CTXCurrentRoutePath).(string) })
	if pair[1] != "" && pair[1] != pair[0] {
		r.GET(pair[1], func(c *Context) { ran = "escaped"; seenPath, _ = c.SafeGet(CTXCurrentRoutePath).(string) })
	}
	req := verifRequest("GET", pair[0])
	req.URL.RawPath = pair[1]
	r.ServeHTTP(verifNewWriter(), req)
	if enc && pair[1] != "" {
		verifAssert(ran == "escaped" && seenPath == pair[1], "with UseEncodedPath the escaped path is matched")
	} else {
		verifAssert(ran == "decoded" && seenPath == pair[0], "by default the decoded path is matched")
	}
	verifCover("C11 encoded path")
}


// With UseEncodedPath a route registered under an escaped spelling is reached
// by exactly the requests that carry that spelling: registration, Match and
// the dispatcher normalise the same way (hex digits of escapes included).
func verifHarness_C11_encodedSymbolic() {
	n := verifLen("plen", 1, verifParam("L"))
	tail := verifString("tail", n)
	verifAssume(verifAlphabet(tail, "/%2fFaA3"))
	p := "/" + tail
	dec, err := url.PathUnescape(p)
	verifAssume(err == nil)
	r := New(UseEncodedPath)
	ran := false
	k := verifCatch(func() { r.GET(p, func(c *Context) { ran = true }) })
	verifAssert(k == "", "a path made of letters, slashes and escapes can be registered")
	req := verifRequest("GET", dec)
	if dec != p {
		req.URL.RawPath = p
	}
	r.ServeHTTP(verifNewWriter(), req)
	verifAssert(ran, "the dispatcher reaches the route registered under the request's own escaped spelling")
	rt, _, _ := r.Match("GET", p)
	verifAssert(rt != nil, "Match agrees with the dispatcher")
	verifCover("C11 encoded symbolic")
}
