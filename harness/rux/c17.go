package rux

// C17 — static file handlers never serve anything outside their root.
//
// Symbolically, "serving a file" is a boundary event recorded by the engine's
// stubs for http.FileServer / http.ServeFile / http.ServeContent / os.Open /
// os.ReadFile (which name reaches which boundary); natively (replay) a real
// directory tree with a secret beside the root is served and the body is
// compared with the secret.

import (
	"net/http"
	"net/url"
	"os"
	"path"
	"path/filepath"
	"regexp"
	"strings"
)

const verifSecret = "TOP-SECRET-CONTENT"

// verifSandbox creates root/{a.css,sub/b.js,c.txt} and a secret beside root.
func verifSandbox() (root string, cleanup func()) {
	if verifSymbolic() {
		return "/b/r", func() {}
	}
	base, err := os.MkdirTemp("", "verif-c17-")
	if err != nil {
		panic(err)
	}
	root = filepath.Join(base, "r") // same directory name as in the symbolic world ("/b/r")
	_ = os.MkdirAll(filepath.Join(root, "sub"), 0o755)
	_ = os.WriteFile(filepath.Join(root, "a.css"), []byte("css"), 0o644)
	_ = os.WriteFile(filepath.Join(root, "sub", "b.js"), []byte("js"), 0o644)
	_ = os.WriteFile(filepath.Join(root, "c.txt"), []byte("txt"), 0o644)
	_ = os.WriteFile(filepath.Join(base, "secret.css"), []byte(verifSecret), 0o644)
	_ = os.WriteFile(filepath.Join(base, "rsecret.css"), []byte(verifSecret), 0o644)
	return root, func() { _ = os.RemoveAll(base) }
}

// verifPlant (native replay only) puts the secret where a traversal through
// rel would land, if that is outside the root but inside the sandbox.
func verifPlant(root, rel string) {
	base := filepath.Dir(root)
	target := filepath.Join(root, rel)
	if target == root || strings.HasPrefix(target, root+string(filepath.Separator)) {
		return
	}
	if !strings.HasPrefix(target, base+string(filepath.Separator)) {
		return
	}
	if st, err := os.Stat(target); err == nil && st.IsDir() {
		return
	}
	_ = os.MkdirAll(filepath.Dir(target), 0o755)
	_ = os.WriteFile(target, []byte(verifSecret), 0o644)
}

// verifPlantInside (native replay only) creates the requested file under the
// root, so that "is it served?" does not depend on the sandbox's fixed files.
func verifPlantInside(root, rel string) {
	if strings.HasSuffix(rel, "/") {
		// a request for a directory: give it an index page, which is not a file with an allowed extension
		dir := filepath.Join(root, rel)
		if dir != root && strings.HasPrefix(dir, root+string(filepath.Separator)) {
			if st, err := os.Stat(dir); err != nil || st.IsDir() {
				_ = os.MkdirAll(dir, 0o755)
				_ = os.WriteFile(filepath.Join(dir, "index.html"), []byte("INDEXPAGE"), 0o644)
			}
		}
		return
	}
	target := filepath.Join(root, rel)
	if target == root || !strings.HasPrefix(target, root+string(filepath.Separator)) {
		return
	}
	if _, err := os.Stat(target); err == nil {
		return
	}
	_ = os.MkdirAll(filepath.Dir(target), 0o755)
	_ = os.WriteFile(target, []byte("INSIDE"), 0o644)
}

func verifUnder(root, name string) bool {
	c := path.Clean(name)
	if root == "" {
		// the working directory: a relative name that does not climb out of it
		if len(c) == 0 || c[0] == '/' {
			return false
		}
		return !(c == ".." || (len(c) > 2 && c[:3] == "../"))
	}
	return c == root || (len(c) > len(root) && c[:len(root)] == root && c[len(root)] == '/')
}

func verifHarness_C17_static() {
	cfg := verifCfg()
	kind := cfg % 4 // 0 StaticDir, 1 StaticFiles, 2 StaticFS, 3 StaticFile
	prefixes := []string{"/s", "/assets", "/a.b"}
	prefix := prefixes[(cfg/4)%len(prefixes)]
	exts := []string{"css", "css|js"}[(cfg/12)%2]
	cached := (cfg/24)%2 == 1
	enc := (cfg/48)%2 == 1 // UseEncodedPath: the request is given by its escaped spelling
	emptyRoot := (cfg/96)%2 == 1 // the root argument is "": the working directory
	root, cleanup := verifSandbox()
	defer cleanup()
	sandboxRoot := root
	if emptyRoot {
		if !verifSymbolic() {
			wd, _ := os.Getwd()
			_ = os.Chdir(root)
			defer func() { _ = os.Chdir(wd) }()
		}
		root = ""
	}
	var opts []func(*Router)
	if cached {
		opts = append(opts, EnableCaching)
	}
	if enc {
		opts = append(opts, UseEncodedPath)
	}
	r := New(opts...)
	single := root + "/c.txt"
	if emptyRoot {
		single = "c.txt"
	}
	switch kind {
	case 0:
		r.StaticDir(prefix, root)
	case 1:
		r.StaticFiles(prefix, root, exts)
	case 2:
		r.StaticFS(prefix, http.Dir(root))
	case 3:
		r.StaticFile(prefix+"/one", single)
	}
	n := verifLen("plen", 0, verifParam("L"))
	tail := verifString("tail", n)
	// a concrete suffix lets short symbolic parts form longer, servable names
	tail += []string{"", "/x.css", ".js"}[verifChoice("suffix", 3)]
	p := prefix + tail
	if verifChoice("anywhere", 2) == 1 {
		p = tail
	}
	req := verifRequest("GET", p)
	if enc {
		// p is the escaped spelling; URL.Path is its percent-decoding (net/url's contract)
		verifAssume(verifAlphabet(tail, "/.%2eEfF5cCabxsj"))
		dec, err := url.PathUnescape(p)
		verifAssume(err == nil)
		req.URL.Path = dec
		if dec != p {
			req.URL.RawPath = p
		}
	}
	expect := ""
	if !verifSymbolic() {
		verifPlant(sandboxRoot, strings.TrimPrefix(req.URL.Path, prefix))
		verifPlant(sandboxRoot, req.URL.Path)
		verifPlantInside(sandboxRoot, strings.TrimPrefix(req.URL.Path, prefix))
		if norm := verifSpecNorm(p, false); kind == 1 && strings.HasPrefix(norm, prefix+"/") {
			// the file an allowed request names: the remainder of the normalised path
			// (only plain names: net/http cleans dot segments and repeated slashes itself)
			rel := norm[len(prefix)+1:]
			if path.Clean("/"+rel) == "/"+rel && !strings.Contains(rel, "\x00") {
				verifPlantInside(sandboxRoot, rel)
				if st, err := os.Stat(filepath.Join(sandboxRoot, rel)); err == nil && st.Mode().IsRegular() {
					if b, err := os.ReadFile(filepath.Join(sandboxRoot, rel)); err == nil {
						expect = string(b)
					}
				}
			}
		}
	}
	rec := verifNewWriter()
	verifEventsReset()
	k := verifCatch(func() { r.ServeHTTP(rec, req) })
	verifAssert(k == "", "serving a static request does not panic")
	if !verifSymbolic() {
		verifAssert(string(rec.body) != verifSecret, "no request yields content from outside the root")
		// a fixed battery of well-known escapes on the same router: the secret beside the root by
		// its absolute name, by dot-dot, by an encoded dot-dot and behind a leading blank
		secretAbs := filepath.Join(filepath.Dir(sandboxRoot), "secret.css")
		for _, probe := range []string{prefix + secretAbs, prefix + "/" + secretAbs, prefix + "/../secret.css", prefix + "/%2e%2e/secret.css", prefix + "/ ../secret.css", prefix + "//../secret.css"} {
			prec := verifNewWriter()
			_ = verifCatch(func() { r.ServeHTTP(prec, verifRequest("GET", probe)) })
			verifAssert(string(prec.body) != verifSecret, "no well-known escape yields content from outside the root")
		}
		if kind == 1 {
			body := string(rec.body)
			servedFile := rec.whStatus == 200 && (body == "INSIDE" || body == "css" || body == "js" || body == "txt")
			want := regexp.MustCompile(`^` + regexp.QuoteMeta(prefix) + `/.+\.(?:` + exts + `)$`).MatchString(verifSpecNorm(p, false))
			verifAssert(!servedFile || want, "StaticFiles serves only request paths that end in an allowed extension")
			verifAssert(!strings.Contains(body, "INDEXPAGE") && !strings.Contains(body, "<pre>"), "StaticFiles never serves an index page or a directory listing")
			if want && expect != "" {
				verifAssert(rec.whStatus == 200 && body == expect, "StaticFiles answers an allowed request path with the file named by the captured remainder")
			}
		}
		return
	}
	ok := true
	served := 0
	for i := 0; i < verifEventCount(); i++ {
		switch verifEventKind(i) {
		case "FileServer.custom":
			// a file system of the program's own: what its Open touches is judged by the events it causes
			served++
		case "FileServer":
			served++
			ok = verifAnd(ok, verifEventStr(i, 0) == root && kind != 3)
			handed := verifEventStr(i, 1)
			switch kind {
			case 0, 2:
				// the file server receives exactly the request path minus the prefix
				ok = verifAnd(ok, prefix+handed == req.URL.Path || handed == req.URL.Path[len(prefix):])
			case 1:
				want, _, _ := r.QuickMatch("GET", p)
				_ = want
				ok = verifAnd(ok, len(handed) > 0)
			}
		case "ServeFile", "ServeContent", "os.Open", "os.ReadFile":
			served++
			name := verifEventStr(i, 0)
			if kind == 3 {
				ok = verifAnd(ok, name == single)
			} else {
				ok = verifAnd(ok, verifUnder(root, name))
			}
		}
	}
	verifAssert(ok, "every file access goes through the configured root (FileServer on http.Dir(root)) or names the single configured file")
	if kind == 1 {
		// only request paths prefix + "/" + non-empty + "." + ext are served
		want := regexp.MustCompile(`^` + regexp.QuoteMeta(prefix) + `/.+\.(?:` + exts + `)$`).MatchString(verifSpecNorm(p, false))
		verifAssert(verifIff(served > 0, want), "StaticFiles serves exactly the request paths that end in an allowed extension")
		if served > 0 && verifEventKind(0) == "FileServer" {
			// (the file server cleans "/"+name itself, so one leading slash makes no difference)
			handed := verifEventStr(0, 1)
			norm := verifSpecNorm(p, false)
			verifAssert(verifOr(prefix+"/"+handed == norm, prefix+handed == norm), "the name handed to the file server is the captured remainder")
			verifAssert(len(handed) == 0 || handed[len(handed)-1] != '/', "StaticFiles never asks the file server for a directory")
		}
	}
	if served > 0 {
		verifCover("C17 file served")
	} else {
		verifCover("C17 nothing served")
	}
}

// Two StaticFiles registrations under one URL prefix, each with its own root
// and extensions: every request is served from the root of the registration
// whose extensions it ends in, never from the other one.
func verifHarness_C17_twoRoots() {
	rootA, rootB := "/b/ra", "/b/rb"
	cleanup := func() {}
	if !verifSymbolic() {
		base, err := os.MkdirTemp("", "verif-c17b-")
		if err != nil {
			panic(err)
		}
		rootA, rootB = filepath.Join(base, "ra"), filepath.Join(base, "rb")
		_ = os.MkdirAll(rootA, 0o755)
		_ = os.MkdirAll(rootB, 0o755)
		_ = os.WriteFile(filepath.Join(rootA, "x.js"), []byte("jsA"), 0o644)
		_ = os.WriteFile(filepath.Join(rootA, "p.css"), []byte(verifSecret), 0o644) // not for the css handler
		_ = os.WriteFile(filepath.Join(rootB, "y.css"), []byte("cssB"), 0o644)
		_ = os.WriteFile(filepath.Join(rootB, "q.js"), []byte(verifSecret), 0o644) // not for the js handler
		cleanup = func() { _ = os.RemoveAll(base) }
	}
	defer cleanup()
	prefix := []string{"/a", "/s.t"}[verifCfg()%2]
	r := New()
	if verifCfg()/2%2 == 1 {
		r.Group("/", func() { r.StaticFiles(prefix, rootA, "js") })
	} else {
		r.StaticFiles(prefix, rootA, "js")
	}
	r.StaticFiles(prefix, rootB, "css")
	n := verifLen("plen", 1, verifParam("L"))
	tail := verifString("tail", n)
	tail += []string{".js", ".css", ""}[verifChoice("suffix", 3)]
	p := prefix + "/" + tail
	rec := verifNewWriter()
	verifEventsReset()
	k := verifCatch(func() { r.ServeHTTP(rec, verifRequest("GET", p)) })
	verifAssert(k == "", "serving a static request does not panic")
	if !verifSymbolic() {
		verifAssert(string(rec.body) != verifSecret, "no request is answered from the other registration's root")
		for _, probe := range []string{prefix + "/p.css", prefix + "/q.js"} {
			prec := verifNewWriter()
			r.ServeHTTP(prec, verifRequest("GET", probe))
			verifAssert(string(prec.body) != verifSecret, "a file with the other registration's extension is not served from this root")
		}
		for probe, want := range map[string]string{prefix + "/x.js": "jsA", prefix + "/y.css": "cssB"} {
			prec := verifNewWriter()
			r.ServeHTTP(prec, verifRequest("GET", probe))
			verifAssert(string(prec.body) == want, "each registration serves its own files")
		}
		verifCover("C17 two roots")
		return
	}
	norm := verifSpecNorm(p, false)
	isJS := regexp.MustCompile(`^` + regexp.QuoteMeta(prefix) + `/.+\.js$`).MatchString(norm)
	isCSS := regexp.MustCompile(`^` + regexp.QuoteMeta(prefix) + `/.+\.css$`).MatchString(norm)
	ok := true
	served := 0
	for i := 0; i < verifEventCount(); i++ {
		if verifEventKind(i) == "FileServer" {
			served++
			if isJS {
				ok = verifAnd(ok, verifEventStr(i, 0) == rootA)
			} else {
				ok = verifAnd(ok, verifEventStr(i, 0) == rootB)
			}
		}
	}
	verifAssert(verifIff(served > 0, verifOr(isJS, isCSS)), "exactly the paths ending in one of the registered extensions are served")
	verifAssert(ok, "a request is served from the root of the registration whose extension it ends in")
	verifCover("C17 two roots")
}
