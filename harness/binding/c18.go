package binding

// C18 — binding picks its source from the request (decidable part).
//
// Symbolically the decoders, the validator and the request parsers are
// boundary stubs that record which source was touched (engine event log);
// natively (replay) a real request is built whose body is in the format the
// specification expects, and the bound value shows which source was used.
// Outside the claim: bind(encode(v)) == v and malformed-body behaviour, which
// live in encoding/json, encoding/xml, formam and gookit/validate.

import (
	"io"
	"net/http"
	"net/url"
	"strings"
)

type verifUser struct {
	Name  string   `query:"name" form:"name" json:"name" xml:"name"`
	Extra string   `query:"extra" form:"extra" json:"extra" xml:"extra"` // only ever present in the query string
	Tags  []string `query:"tags" form:"tags" json:"tags" xml:"tags"`     // one value that contains a comma
}

// verifStrict has a rule that its zero value violates.
type verifStrict struct {
	Name string `query:"name" form:"name" json:"name" xml:"name" validate:"required"`
}

// verifOrder declares no rule itself: its rules sit on the elements of a slice field.
type verifItem struct {
	SKU string `query:"sku" form:"sku" json:"sku" xml:"sku" validate:"required|minLen:3"`
	Qty int    `query:"qty" form:"qty" json:"qty" xml:"qty" validate:"required|min:1"`
}

type verifOrder struct {
	ID    int         `query:"id" form:"id" json:"id" xml:"id"`
	Items []verifItem `query:"items" form:"items" json:"items" xml:"items"`
}

type verifBody struct{ r *strings.Reader }

func (b *verifBody) Read(p []byte) (int, error) { return b.r.Read(p) }
func (b *verifBody) Close() error               { return nil }

var _ io.ReadCloser = (*verifBody)(nil)

func verifHarness_C18_auto() {
	methods := []string{"GET", "POST", "PUT", "PATCH", "DELETE", "OPTIONS", "HEAD", "CONNECT", "TRACE", "BREW"}
	m := methods[verifChoice("method", len(methods))]
	types := []string{"application", "text", "multipart", ""}
	subs := []string{"json", "xml", "x-www-form-urlencoded", "form-data", "html", "plain", "octet-stream", "?"}
	params := []string{"", "; charset=utf-8", "; boundary=x"}
	typ := types[verifChoice("type", len(types))]
	sub := subs[verifChoice("subtype", len(subs))]
	if sub == "?" {
		n := verifLen("sublen", 1, 4)
		sub = verifString("sub", n)
		for i := 0; i < n; i++ {
			verifAssume(verifAnd(sub[i] >= 'a', sub[i] <= 'z'))
		}
	}
	pk := verifChoice("params", len(params))
	ct := typ + "/" + sub + params[pk]
	sk := verifChoice("shape", 3)
	switch sk {
	case 1:
		ct = "" // empty Content-Type
	case 2:
		ct = typ + sub // no slash: not a media type
	}
	validator := verifChoice("validator", 2) == 1
	if validator {
		ResetValidator()
	} else {
		DisableValidator()
	}
	defer ResetValidator()

	// specification: which source must be used?
	want := "error"
	hasBody := m == "POST" || m == "PUT" || m == "PATCH"
	if !hasBody {
		want = "query"
	}
	isMedia := verifChoice("dummy", 1) == 0 && ct != "" && ct != typ+sub
	body := ""
	if hasBody && isMedia {
		switch {
		case sub == "x-www-form-urlencoded":
			want = "form"
		case sub == "form-data":
			want = "multipart"
		case sub == "json":
			want = "json"
		case sub == "xml":
			want = "xml"
		}
	}
	// the body is in the format the subtype *names* (also when the Content-Type as a whole is not a
	// supported media type), so that a wrongly selected decoder would succeed and be noticed
	switch {
	case want == "form" || sub == "x-www-form-urlencoded":
		body = "name=f&tags=a%2C+b"
	case want == "json" || sub == "json":
		body = `{"name":"j"}`
	case want == "xml" || sub == "xml":
		body = `<verifUser><name>x</name></verifUser>`
	case want == "multipart" || sub == "form-data":
		body = "--x\r\nContent-Disposition: form-data; name=\"name\"\r\n\r\nm\r\n--x\r\nContent-Disposition: form-data; name=\"tags\"\r\n\r\na, b\r\n--x--\r\n"
	}
	// emptySrc: the selected source carries no key at all (no query string, empty form)
	emptySrc := verifChoice("emptySource", 2) == 1
	rawQuery := "name=q&extra=e&tags=a%2C+b"
	if emptySrc {
		rawQuery = ""
		if want == "form" {
			body = ""
		}
	}
	req := &http.Request{Method: m, URL: &url.URL{Path: "/", RawQuery: rawQuery}, Header: http.Header{}}
	if ct != "" {
		req.Header["Content-Type"] = []string{ct}
	}
	rb := &verifBody{strings.NewReader(body)}
	req.Body = rb
	if verifSymbolic() && !emptySrc {
		// tag the maps the stubs hand out, so that the decoded map identifies its source
		req.PostForm = url.Values{"__source": {"postform"}, "tags": {"a, b"}}
		req.Form = url.Values{"__source": {"form+query"}, "tags": {"a, b"}}
		verifSetGhost("URL.Query", url.Values{"__source": {"query"}, "tags": {"a, b"}})
	}
	if !verifSymbolic() && !hasBody && !emptySrc {
		// the request may have started life as a POST whose form was parsed (a method-override
		// handler does that): the parsed form then holds body fields, which a request without
		// a body must not be bound from
		pre := &http.Request{Method: "POST", URL: &url.URL{Path: "/", RawQuery: rawQuery}, Header: http.Header{"Content-Type": {"application/x-www-form-urlencoded"}}}
		pre.Body = &verifBody{strings.NewReader("name=frombody&extra=frombody")}
		if pre.ParseForm() == nil {
			req.Form, req.PostForm = pre.Form, pre.PostForm
		}
	}
	var obj verifUser
	var strictObj verifStrict
	// an order whose only item breaks the element rules; nothing in an empty source overwrites it
	order := verifOrder{ID: 1, Items: []verifItem{{SKU: "x", Qty: 0}}}
	// (the two struct-type variants below are explored for plain Content-Types only)
	useOrder := emptySrc && pk == 0 && sk == 0 && verifChoice("order", 2) == 1
	// types without a name: first one without any rule is bound (from a query string), then one
	// with a required field - what was learnt about the first must not be applied to the second
	useAnon := emptySrc && !useOrder && pk == 0 && sk == 0 && verifChoice("anonymous", 2) == 1
	var strictAnon struct {
		Name string `query:"name" form:"name" json:"name" xml:"name" validate:"required"`
	}
	if useAnon {
		var plain struct {
			X string `query:"x" form:"x" json:"x" xml:"x"`
		}
		pre := &http.Request{Method: "GET", URL: &url.URL{Path: "/", RawQuery: "x=1"}, Header: http.Header{}}
		_ = verifCatch(func() { _ = Auto(pre, &plain) })
	}
	verifEventsReset()
	var err error
	k := verifCatch(func() {
		switch {
		case useOrder:
			err = Auto(req, &order)
		case useAnon:
			err = Auto(req, &strictAnon)
		case emptySrc:
			err = Auto(req, &strictObj)
		default:
			err = Auto(req, &obj)
		}
	})
	verifAssert(k == "", "automatic binding does not panic")
	if !verifSymbolic() && emptySrc {
		// nothing to bind: the value stays zero, which the validator (when on) must reject
		// (a Content-Type without a type part is refused by net/http's own form parser: its contract)
		if want == "query" || (want == "form" && typ != "") {
			verifAssert((err != nil) == validator, "a successful bind implies the value passed validation (empty source, required field)")
		}
		return
	}
	if !verifSymbolic() {
		if want == "multipart" && ct != "multipart/form-data; boundary=x" {
			return // a multipart body needs its boundary parameter to be parsed natively
		}
		switch want {
		case "error":
			verifAssert(err != nil && obj.Name == "", "an unsupported Content-Type yields an error and binds nothing")
		case "query":
			verifAssert(err == nil && obj.Name == "q" && obj.Extra == "e" && len(obj.Tags) == 1 && obj.Tags[0] == "a, b", "methods without a body bind the query string")
		case "form":
			verifAssert(err == nil && obj.Name == "f" && obj.Extra == "" && len(obj.Tags) == 1 && obj.Tags[0] == "a, b", "url-encoded form bodies are bound from the body form only")
		case "multipart":
			verifAssert(err == nil && obj.Name == "m" && obj.Extra == "" && len(obj.Tags) == 1 && obj.Tags[0] == "a, b", "multipart bodies are bound from the multipart form only")
		case "json":
			verifAssert(err == nil && obj.Name == "j" && obj.Extra == "", "JSON bodies are bound from JSON only")
		case "xml":
			verifAssert(err == nil && obj.Name == "x" && obj.Extra == "", "XML bodies are bound from XML only")
		}
		return
	}
	nQuery, nParse, nMulti := verifCountEvents("URL.Query"), verifCountEvents("ParseForm"), verifCountEvents("ParseMultipartForm")
	nForm, nJSON, nXML, nVal := verifCountEvents("formam.Decode"), verifCountEvents("json.Decode"), verifCountEvents("xml.Decode"), verifCountEvents("Validate")
	if !emptySrc && (want == "query" || want == "form" || want == "multipart") && nForm == 1 {
		src, tags := "", ""
		for i := 0; i < verifEventCount(); i++ {
			if verifEventKind(i) == "formam.Decode" {
				src = verifEventStr(i, 0)
				tags = verifEventStr(i, 1)
			}
		}
		if want == "query" {
			verifAssert(src == "query", "the query string, and nothing else, is decoded for methods without a body")
		} else {
			verifAssert(src == "postform", "the parsed body form (not the merged form+query map) is decoded")
		}
		verifAssert(tags == "1:a, b", "the decoder receives the source's values as they are (one value stays one value)")
	}
	switch want {
	case "error":
		verifAssert(err != nil, "an unsupported Content-Type yields an error")
		verifAssert(nQuery+nParse+nMulti+nForm+nJSON+nXML == 0, "an unsupported Content-Type touches no source")
	case "query":
		verifAssert(nQuery == 1 && nParse+nMulti+nJSON+nXML == 0, "methods without a body read only the query string")
	case "form":
		verifAssert(nParse == 1 && nQuery+nMulti+nJSON+nXML == 0, "url-encoded bodies read only the parsed form")
	case "multipart":
		verifAssert(nMulti == 1 && nQuery+nParse+nJSON+nXML == 0, "multipart bodies read only the multipart form")
	case "json":
		verifAssert(nJSON == 1 && nQuery+nParse+nMulti+nForm+nXML == 0, "JSON bodies are decoded from the body only")
	case "xml":
		verifAssert(nXML == 1 && nQuery+nParse+nMulti+nForm+nJSON == 0, "XML bodies are decoded from the body only")
	}
	if err == nil && want != "error" {
		if validator {
			if emptySrc {
				// the bound type declares rules (on itself or on the elements of a slice field):
				// the validator must have been asked, and it was the last thing to happen
				verifAssert(nVal == 1, "a successful bind implies the value passed validation")
				verifAssert(verifEventKind(verifEventCount()-1) == "Validate", "validation runs after decoding")
			} else {
				// a type without any rule passes trivially; if the validator is asked, it is asked once, after decoding
				verifAssert(nVal <= 1, "the validator is asked at most once")
				if nVal == 1 {
					verifAssert(verifEventKind(verifEventCount()-1) == "Validate", "validation runs after decoding")
				}
			}
			verifCover("C18 validated")
		} else {
			verifAssert(nVal == 0, "no validation when the validator is disabled")
		}
	}
	verifCover("C18 source " + want)
}

// Malformed input never makes a binder panic: an arbitrary short body (every
// byte value) through the JSON and XML branches of Auto and through the
// explicit binders.  Symbolically the decoders are stubs, so what is explored
// is rux's own handling of the body before and after decoding; natively the
// real decoders run.
func verifHarness_C18_malformed() {
	xmlKind := verifChoice("format", 2) == 1
	n := verifLen("body_len", 0, verifParam("B"))
	body := verifString("body", n)
	ct := "application/json"
	if xmlKind {
		ct = "text/xml; charset=utf-8"
	}
	req := &http.Request{Method: "POST", URL: &url.URL{Path: "/"}, Header: http.Header{"Content-Type": {ct}}}
	req.Body = &verifBody{strings.NewReader(body)}
	var obj verifUser
	k := verifCatch(func() { _ = Auto(req, &obj) })
	verifAssert(k == "", "automatic binding of an arbitrary body does not panic")
	k = verifCatch(func() {
		if xmlKind {
			_ = XML.BindBytes([]byte(body), &obj)
		} else {
			_ = JSON.BindBytes([]byte(body), &obj)
		}
	})
	verifAssert(k == "", "binding arbitrary bytes does not panic")
	if verifSymbolic() {
		// malformed input is refused by the decoder only if the decoder is left strict
		strict := true
		direct := true
		for i := 0; i < verifEventCount(); i++ {
			if verifEventKind(i) == "xml.Decode" {
				strict = verifAnd(strict, verifEventStr(i, 1) == "strict")
			}
			if verifEventKind(i) == "xml.Decode" || verifEventKind(i) == "json.Decode" {
				tag := verifEventStr(i, 0)
				direct = verifAnd(direct, tag == "*github.com/gookit/rux/pkg/binding.verifBody" || tag == "*strings.Reader")
			}
		}
		verifAssert(direct, "the decoder reads the request body (or the given bytes) itself, not a truncating wrapper")
		verifAssert(strict, "the XML decoder is used as encoding/xml sets it up (strict, no entity table, no auto-close list)")
	} else {
		// a fixed battery of malformed documents: every one is an error, none binds
		for _, doc := range []string{
			"<verifUser><name>x</verifUser>", "<verifUser><name>x</name>", "<verifUser><name>&bogus;</name></verifUser>",
			"<verifUser a=b><name>x</name></verifUser>", "<verifUser><name>x</nam></verifUser>", "<verifUser a><name>x</name></verifUser>",
		} {
			var u verifUser
			verifAssert(XML.BindBytes([]byte(doc), &u) != nil, "malformed XML yields an error")
			rq := &http.Request{Method: "POST", URL: &url.URL{Path: "/"}, Header: http.Header{"Content-Type": {"application/xml"}}}
			rq.Body = &verifBody{strings.NewReader(doc)}
			verifAssert(Auto(rq, &u) != nil, "malformed XML yields an error through automatic binding")
		}
		// a body of any size binds: the multipart in-memory threshold is not a limit for JSON / XML bodies
		{
			saved := DefaultMaxMemory
			DefaultMaxMemory = 16
			long := strings.Repeat("v", 200)
			var u verifUser
			rq := &http.Request{Method: "POST", URL: &url.URL{Path: "/"}, Header: http.Header{"Content-Type": {"application/json"}}}
			rq.Body = &verifBody{strings.NewReader(`{"name":"` + long + `"}`)}
			verifAssert(Auto(rq, &u) == nil && u.Name == long, "a JSON body longer than the multipart memory threshold binds")
			rq = &http.Request{Method: "POST", URL: &url.URL{Path: "/"}, Header: http.Header{"Content-Type": {"application/xml"}}}
			rq.Body = &verifBody{strings.NewReader("<verifUser><name>" + long + "</name></verifUser>")}
			var x verifUser
			verifAssert(Auto(rq, &x) == nil && x.Name == long, "an XML body longer than the multipart memory threshold binds")
			DefaultMaxMemory = saved
		}
		for _, doc := range []string{`{"name":"x"`, `{"name":}`, `[`, `{"name":"x",}`, `{"name":x}`} {
			var u verifUser
			verifAssert(JSON.BindBytes([]byte(doc), &u) != nil, "malformed JSON yields an error")
		}
	}
	verifCover("C18 arbitrary body")
}
