package handlers

// C20 — auth, method-override and http.Handler wrappers behave as gates.

import (
	"strings"
	"io"
	"net/http"
	"net/url"

	"github.com/gookit/rux"
)

func verifShort(label string, lo, hi int) string {
	n := verifLen(label+"_len", lo, hi)
	return verifString(label, n)
}

// HTTPBasicAuth lets the rest of the chain run iff the request carries
// well-formed credentials and (no account list or the password matches).
func verifHarness_C20_basicAuth() {
	nacc := verifChoice("accounts", verifParam("A")+1)
	accounts := map[string]string{}
	var users, pwds []string
	for i := 0; i < nacc; i++ {
		u := verifShort("acc_user", 0, 2)
		for _, x := range users {
			verifAssume(x != u)
		}
		p := verifShort("acc_pwd", 0, 2)
		users = append(users, u)
		pwds = append(pwds, p)
		accounts[u] = p
	}
	ok := verifBool("credentials")
	user := verifShort("user", 0, 2)
	pwd := verifShort("pwd", 0, 2)
	// the engine stubs Request.BasicAuth() with this triple (every malformed
	// header is the case ok=false); natively the real header is set
	verifSetGhost("BasicAuth.user", user)
	verifSetGhost("BasicAuth.pass", pwd)
	verifSetGhost("BasicAuth.ok", ok)
	req := verifRequest("GET", "/x")
	if ok {
		if !verifSymbolic() {
			for i := 0; i < len(user); i++ {
				verifAssume(user[i] != ':') // not representable in a Basic header
			}
		}
		req.SetBasicAuth(user, pwd)
	} else if verifChoice("malformed", 2) == 1 {
		req.Header.Set("Authorization", "Basic !!notbase64")
	}
	pos := verifChoice("gatePos", 2) // gate as global or as route middleware
	ranBefore, ranAfter, ranMain := false, false, false
	var sawUser any
	r := rux.New()
	before := func(c *rux.Context) { ranBefore = true }
	after := func(c *rux.Context) { ranAfter = true }
	main := func(c *rux.Context) { ranMain = true; sawUser, _ = c.Get("username") }
	gate := HTTPBasicAuth(accounts)
	if pos == 0 {
		r.Use(before, gate)
		r.GET("/x", main, after)
	} else {
		r.Use(before)
		r.GET("/x", main, gate, after)
	}
	rec := verifNewWriter()
	r.ServeHTTP(rec, req)
	// specification
	match := len(users) == 0
	for i := range users {
		match = verifOr(match, verifAnd(users[i] == user, pwds[i] == pwd))
	}
	pass := verifAnd(ok, match)
	verifAssert(ranBefore, "handlers before the gate run")
	verifAssert(verifIff(ranMain, pass), "the rest of the chain runs iff the credentials are well-formed and accepted")
	verifAssert(verifIff(ranAfter, pass), "nothing downstream runs when the gate refuses")
	if ranMain {
		verifAssert(sawUser == any(user), "the accepted user name is exposed to the chain")
		verifAssert(rec.whStatus == 200, "accepted requests are answered normally")
		verifCover("C20 auth passed")
	} else if !ok {
		verifAssert(rec.whStatus == 401, "missing or malformed credentials are answered 401")
		verifAssert(rec.hdr.Get("WWW-Authenticate") != "", "401 carries a WWW-Authenticate challenge")
		verifCover("C20 auth 401")
	} else {
		verifAssert(rec.whStatus == 403, "wrong credentials are answered 403")
		verifCover("C20 auth 403")
	}
}

// The same gate with the real Authorization header: nothing of net/http is
// stubbed, the credentials travel base64-encoded as they do on the wire
// (account names may contain a colon; a user name cannot).
func verifHarness_C20_basicAuthRaw() {
	nacc := verifChoice("accounts", verifParam("A")+1)
	accounts := map[string]string{}
	// the gate is built from the map either after or before the accounts are entered (the map is
	// the caller's: what counts is its content when a request arrives)
	fillLater := verifChoice("fillLater", 2) == 1
	var gate rux.HandlerFunc
	if fillLater {
		gate = HTTPBasicAuth(accounts)
	}
	var users, pwds []string
	for i := 0; i < nacc; i++ {
		u := verifShort("acc_user", 0, 2)
		for _, x := range users {
			verifAssume(x != u)
		}
		p := verifShort("acc_pwd", 0, 1)
		users = append(users, u)
		pwds = append(pwds, p)
		accounts[u] = p
	}
	if !fillLater {
		gate = HTTPBasicAuth(accounts)
	}
	req := verifRequest("GET", "/x")
	hk := verifChoice("header", 3) // none, well-formed credentials, arbitrary bytes after "Basic "
	user, pwd := "", ""
	switch hk {
	case 1:
		user = verifShort("user", 0, 2)
		for i := 0; i < len(user); i++ {
			verifAssume(user[i] != ':')
		}
		pwd = verifShort("pwd", 0, 3)
		req.SetBasicAuth(user, pwd)
	case 2:
		raw := verifShort("raw", 0, 4)
		for i := 0; i < len(raw); i++ {
			verifAssume(verifAnd(raw[i] != '\n', raw[i] != '\r'))
		}
		req.Header.Set("Authorization", "Basic "+raw)
	}
	ranMain := false
	var sawUser any
	r := rux.New()
	// something earlier in the chain may have put a user name into the context (another gate
	// without an account list, a session middleware): this gate still checks its own list
	if verifChoice("usernamePreset", 2) == 1 {
		r.Use(func(c *rux.Context) { c.Set("username", "someone-else") })
	}
	r.Any("/x", func(c *rux.Context) { ranMain = true; sawUser, _ = c.Get("username") }, gate)
	// the gate does not depend on the request method or on other headers (a CORS preflight included)
	switch verifChoice("requestKind", 3) {
	case 1:
		req.Method = "OPTIONS"
		req.Header.Set("Access-Control-Request-Method", "DELETE")
		req.Header.Set("Origin", "https://example.org")
	case 2:
		req.Method = "DELETE"
	}
	rec := verifNewWriter()
	k := verifCatch(func() { r.ServeHTTP(rec, req) })
	verifAssert(k == "", "no Authorization header makes the gate panic")
	switch hk {
	case 0:
		verifAssert(!ranMain && rec.whStatus == 401, "a request without credentials is answered 401")
	case 1:
		match := len(users) == 0
		for i := range users {
			match = verifOr(match, verifAnd(users[i] == user, pwds[i] == pwd))
		}
		verifAssert(verifIff(ranMain, match), "the chain runs iff the decoded user is an account with that password (or no account list is given)")
		if ranMain {
			verifAssert(sawUser == any(user), "the accepted user name is exposed to the chain")
		} else {
			verifAssert(rec.whStatus == 403, "wrong credentials are answered 403")
		}
	case 2:
		if ranMain && len(users) > 0 {
			known := false
			for i := range users {
				known = verifOr(known, sawUser == any(users[i]))
			}
			verifAssert(known, "whatever the header spells, only a configured account gets through")
		}
	}
	verifCover("C20 raw header")
}

func verifUpper(s string) string {
	out := ""
	for i := 0; i < len(s); i++ {
		c := s[i]
		if verifAnd(c >= 'a', c <= 'z') {
			c -= 32
		}
		out += string(c)
	}
	return out
}

// HTTPMethodOverrideHandler rewrites the method only for POST and only to
// PUT, PATCH or DELETE (form field first, header second, case-insensitive).
func verifHarness_C20_methodOverride() {
	methods := []string{"GET", "POST", "PUT", "PATCH", "DELETE", "OPTIONS", "HEAD", "CONNECT", "TRACE"}
	m := methods[verifChoice("method", len(methods))]
	form := verifShort("form", 0, 6)
	hdr := verifShort("hdr", 0, 6)
	for i := 0; i < len(form); i++ {
		verifAssume(form[i] < 0x80)
	}
	for i := 0; i < len(hdr); i++ {
		verifAssume(hdr[i] < 0x80)
	}
	req := verifRequest(m, "/x")
	// the form value arrives url-encoded (already parsed into r.Form) or in a multipart body,
	// which only Request.FormValue / ParseMultipartForm read
	multipart := form != "" && verifChoice("carrier", 2) == 1
	if multipart {
		for i := 0; i < len(form); i++ {
			verifAssume(verifAnd(form[i] != '\r', form[i] != '\n'))
		}
		if !verifSymbolic() {
			req.Header["Content-Type"] = []string{"multipart/form-data; boundary=xYz"}
			body := "--xYz\r\nContent-Disposition: form-data; name=\"_method\"\r\n\r\n" + form + "\r\n--xYz--\r\n"
			req.Body = io.NopCloser(strings.NewReader(body))
		}
	} else {
		req.Form = url.Values{}
		if form != "" {
			req.Form["_method"] = []string{form}
		}
	}
	verifSetGhost("FormValue._method", form)
	if hdr != "" {
		req.Header["X-Http-Method-Override"] = []string{hdr}
	}
	var seenMethod string
	var seenOrig any
	inner := http.HandlerFunc(func(w http.ResponseWriter, r *http.Request) {
		seenMethod = r.Method
		seenOrig = r.Context().Value(OriginalMethodContextKey)
	})
	HTTPMethodOverrideHandler(inner).ServeHTTP(verifNewWriter(), req)
	// specification
	val := form
	if form == "" {
		val = hdr
	}
	up := verifUpper(val)
	allowed := verifOr(up == "PUT", verifOr(up == "PATCH", up == "DELETE"))
	rewrite := verifAnd(m == "POST", allowed)
	if seenMethod == m {
		verifAssert(verifOr(verifNot(rewrite), up == m), "a POST with an allowed override value is rewritten")
	} else {
		verifAssert(rewrite, "the method is rewritten only for POST and only to PUT, PATCH or DELETE")
		verifAssert(seenMethod == up, "the new method is the upper-cased override value")
		verifCover("C20 method rewritten")
	}
	verifAssert(verifIff(seenOrig == any("POST"), rewrite), "the original method is recorded exactly when the method was rewritten")
	verifAssert(verifOr(seenOrig == nil, seenOrig == any("POST")), "nothing else is recorded")
	verifCover("C20 override tried")
}

// WrapHTTPHandlers / WrapHTTPHandler compose generic http.Handlers: first
// listed is outermost; wrapped handlers take part in the chain.
func verifHarness_C20_wrappers() {
	n := 1 + verifChoice("n", verifParam("W"))
	var trace []int
	mk := func(id int) func(http.Handler) http.Handler {
		return func(h http.Handler) http.Handler {
			return http.HandlerFunc(func(w http.ResponseWriter, r *http.Request) {
				trace = append(trace, id)
				h.ServeHTTP(w, r)
				trace = append(trace, -id)
			})
		}
	}
	var ws []func(http.Handler) http.Handler
	for i := 1; i <= n; i++ {
		ws = append(ws, mk(i))
	}
	r := rux.New()
	var gotW http.ResponseWriter
	var gotR *http.Request
	var ctxResp http.ResponseWriter
	var ctxReq *http.Request
	abort := verifChoice("abort", 2) == 1
	mainRan := false
	r.Use(func(c *rux.Context) {
		ctxResp, ctxReq = c.Resp, c.Req
		trace = append(trace, 100)
		c.Next()
		trace = append(trace, -100)
	})
	// the wrapped handler may answer with any status (also an error status): like a native
	// handler that sets a status, it does not end the chain by doing so
	setsStatus := verifChoice("wrappedSetsStatus", 2) == 1
	wcode := 200
	if setsStatus {
		wcode = verifInt("wrappedStatus")
		verifAssume(verifAnd(wcode >= 100, wcode <= 599))
	}
	wrapped := rux.WrapHTTPHandler(http.HandlerFunc(func(w http.ResponseWriter, rq *http.Request) {
		gotW, gotR = w, rq
		trace = append(trace, 101)
		if setsStatus {
			w.WriteHeader(wcode)
		}
	}))
	gate := func(c *rux.Context) {
		if abort {
			c.AbortWithStatus(403)
		}
	}
	r.GET("/x", func(c *rux.Context) { mainRan = true; trace = append(trace, 102) }, wrapped, gate,
		rux.WrapHTTPHandlerFunc(func(w http.ResponseWriter, rq *http.Request) { trace = append(trace, 103) }))
	h := r.WrapHTTPHandlers(ws...)
	rec := verifNewWriter()
	req := verifRequest("GET", "/x")
	h.ServeHTTP(rec, req)
	var want []int
	for i := 1; i <= n; i++ {
		want = append(want, i)
	}
	want = append(want, 100, 101)
	if !abort {
		want = append(want, 103, 102)
	}
	want = append(want, -100)
	for i := n; i >= 1; i-- {
		want = append(want, -i)
	}
	same := len(trace) == len(want)
	if same {
		for i := range want {
			if trace[i] != want[i] {
				same = false
			}
		}
	}
	verifAssert(same, "the first listed wrapper is outermost; wrapped http.Handlers run in chain order and obey abort like native handlers")
	verifAssert(gotW == ctxResp && gotR == ctxReq, "a wrapped http.Handler receives the context's writer and request")
	verifAssert(mainRan == !abort, "abort stops wrapped and native handlers alike")
	// a rux.HandlerFunc used directly as an http.Handler gets a context bound to the writer and request
	var directResp http.ResponseWriter
	var directReq *http.Request
	rec2 := verifNewWriter()
	req2 := verifRequest("GET", "/y")
	rux.HandlerFunc(func(c *rux.Context) {
		directResp, directReq = c.RawWriter(), c.Req
		c.SetStatus(202)
		c.WriteString("d")
	}).ServeHTTP(rec2, req2)
	verifAssert(directResp == http.ResponseWriter(rec2) && directReq == req2, "HandlerFunc.ServeHTTP binds the context to the given writer and request")
	verifAssert(rec2.whCalls == 1 && rec2.whStatus == 202 && string(rec2.body) == "d", "its response reaches the given writer")
	verifCover("C20 wrappers")
}
