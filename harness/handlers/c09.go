package handlers

import "github.com/gookit/rux"

// C09 (in-chain recovery): PanicsHandler contains a panic of any later
// handler and records 500.
func verifHarness_C09_panicsHandler() {
	n := 1 + verifChoice("n", 3)
	p := verifChoice("pos", n)
	after := verifChoice("afterNext", 2) == 1
	r := rux.New()
	r.Use(PanicsHandler())
	late := false
	panicked := false
	mk := func(i int) rux.HandlerFunc {
		return func(c *rux.Context) {
			if panicked {
				late = true
			}
			if i == p && !after {
				panicked = true
				panic("boom")
			}
			c.Next()
			if i == p {
				panicked = true
				panic("boom")
			}
		}
	}
	var mws []rux.HandlerFunc
	for i := 0; i < n-1; i++ {
		mws = append(mws, mk(i))
	}
	r.GET("/x", mk(n-1), mws...)
	rec := verifNewWriter()
	k := verifCatch(func() { r.ServeHTTP(rec, verifRequest("GET", "/x")) })
	verifAssert(k == "", "the panic does not escape ServeHTTP")
	verifAssert(panicked, "the crash point was reached")
	_ = late // observation (not part of the statement): handlers after the panicking one still start, see DESIGN.md
	verifAssert(rec.whCalls == 1 && rec.whStatus == 500, "500 is recorded and committed once")
	verifCover("C09 PanicsHandler")
}
