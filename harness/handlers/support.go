package handlers

import (
	"net/http"
	"net/url"
)

type verifWriter struct {
	hdr      http.Header
	whCalls  int
	whStatus int
	body     []byte
}

func (w *verifWriter) Header() http.Header { return w.hdr }
func (w *verifWriter) WriteHeader(code int) {
	w.whCalls++
	if w.whCalls == 1 {
		w.whStatus = code
	}
}
func (w *verifWriter) Write(b []byte) (int, error) {
	w.body = append(w.body, b...)
	return len(b), nil
}

func verifNewWriter() *verifWriter { return &verifWriter{hdr: http.Header{}} }

func verifRequest(method, path string) *http.Request {
	return &http.Request{Method: method, URL: &url.URL{Path: path}, Header: http.Header{}}
}
