package render

// C19 (pkg/render part): renderers never override a Content-Type the caller
// has already set; Auto picks the first supported type listed in Accept;
// encoding failures are returned, not panicked.

import (
	"encoding/json"
	"encoding/xml"
	"net/http"
	"net/url"
	"strings"
)

type verifWriter struct {
	hdr  http.Header
	body []byte
	code int
}

func (w *verifWriter) Header() http.Header         { return w.hdr }
func (w *verifWriter) WriteHeader(c int)           { w.code = c }
func (w *verifWriter) Write(b []byte) (int, error) { w.body = append(w.body, b...); return len(b), nil }

type verifPayload struct {
	XMLName xml.Name `xml:"p" json:"-"`
	N       string   `xml:"n" json:"n"`
}

func verifBytes(label string, lo, hi int) string {
	n := verifLen(label+"_len", lo, hi)
	return verifString(label, n)
}

func verifHarness_C19_renderers() {
	kind := verifChoice("renderer", 8)
	presets := []string{"", "text/csv", "application/octet-stream", "x"}
	preset := presets[verifChoice("preset", len(presets))]
	w := &verifWriter{hdr: http.Header{}}
	if preset != "" {
		w.hdr["Content-Type"] = []string{preset}
	}
	payload := verifBytes("payload", 0, 3)
	var obj any = verifPayload{N: "v"}
	// the JSON renderers are also given other top-level values: whatever it is, the body is its encoding
	vkind := 0
	tag := "github.com/gookit/rux/pkg/render.verifPayload"
	if kind == 4 || kind == 5 || kind == 7 {
		vkind = verifChoice("value", 4)
		switch vkind {
		case 1:
			obj, tag = []byte("hi"), "[]byte"
		case 2:
			obj, tag = json.RawMessage(`{"n":"v"}`), "encoding/json.RawMessage"
		case 3:
			obj, tag = map[string]string{"n": "v"}, "map[string]string"
		}
	}
	// an unencodable value: natively a channel; symbolically the encoder stub is told to fail
	unencodable := kind >= 4 && verifChoice("unencodable", 2) == 1
	verifSetGhost("err.json.Encode", unencodable)
	verifSetGhost("err.xml.Encode", unencodable)
	if unencodable && !verifSymbolic() {
		obj = make(chan int)
	}
	cb := "cb"
	var err error
	doc := ""
	k := verifCatch(func() {
		switch kind {
		case 0:
			err, doc = Text(w, payload), "text/plain; charset=utf-8"
		case 1:
			err, doc = HTML(w, payload), "text/html; charset=utf-8"
		case 2:
			err, doc = TextBytes(w, []byte(payload)), "text/plain; charset=utf-8"
		case 3:
			err, doc = Blob(w, "image/png", []byte(payload)), "image/png"
		case 4:
			err, doc = JSON(w, obj), "application/json; charset=utf-8"
		case 5:
			err, doc = JSONP(cb, obj, w), "application/javascript; charset=utf-8"
		case 6:
			err, doc = XML(w, obj), "application/xml; charset=utf-8"
		case 7:
			err, doc = JSONIndented(w, obj), "application/json; charset=utf-8"
		}
	})
	verifAssert(k == "", "renderers never panic")
	want := doc
	if preset != "" {
		want = preset
	}
	verifAssert(len(w.hdr["Content-Type"]) == 1 && w.hdr["Content-Type"][0] == want, "the renderer sets its documented Content-Type only when none was set")
	if kind <= 3 {
		verifAssert(err == nil && string(w.body) == payload, "raw renderers write exactly the given bytes")
		verifCover("C19 raw renderer")
		return
	}
	verifAssert((err != nil) == unencodable, "an encoding failure is returned as an error (and only then)")
	if err != nil {
		verifCover("C19 encoder error returned")
		return
	}
	if verifSymbolic() {
		e := "<json:" + tag + ">"
		switch kind {
		case 4, 7:
			verifAssert(string(w.body) == e, "JSON body is the encoding of the value")
		case 5:
			verifAssert(string(w.body) == cb+"("+e+");", "JSONP wraps the encoding as callback(...);")
		case 6:
			verifAssert(string(w.body) == xml.Header+"<xml:github.com/gookit/rux/pkg/render.verifPayload>", "XML body is the XML header followed by the encoding")
		}
	} else {
		var back verifPayload
		// decodesBack: the JSON text decodes into a value of obj's type that equals obj
		decodesBack := func(text []byte) bool {
			switch vkind {
			case 1:
				var b []byte
				return json.Unmarshal(text, &b) == nil && string(b) == "hi"
			case 2:
				var m map[string]string
				return json.Unmarshal(text, &m) == nil && len(m) == 1 && m["n"] == "v"
			case 3:
				var m map[string]string
				return json.Unmarshal(text, &m) == nil && len(m) == 1 && m["n"] == "v"
			}
			return json.Unmarshal(text, &back) == nil && back.N == "v"
		}
		switch kind {
		case 4, 7:
			verifAssert(decodesBack(w.body), "JSON body decodes back to the value")
		case 5:
			s := string(w.body)
			verifAssert(strings.HasPrefix(s, cb+"(") && strings.HasSuffix(s, ");"), "JSONP wraps the encoding as callback(...);")
			if strings.HasPrefix(s, cb+"(") && strings.HasSuffix(s, ");") {
				verifAssert(decodesBack([]byte(s[len(cb)+1:len(s)-2])), "JSONP payload decodes back to the value")
			}
		case 6:
			verifAssert(strings.HasPrefix(string(w.body), xml.Header), "XML body starts with the XML header")
			verifAssert(xml.Unmarshal(w.body, &back) == nil && back.N == "v", "XML body decodes back to the value")
		}
	}
	verifCover("C19 encoding renderer")
}

// (a quality value, also a zero one, is a parameter like any other: the statement picks by list order)
var verifAcceptTokens = []string{"application/json", "text/html", "text/plain", "application/xml", "text/xml", "image/png", "", "application/json;q=0.9",
	"application/json;q=0", "application/xml;Q=0.000", "text/plain; q=0.0"}

// Content negotiation by Accept picks the first supported type listed.
func verifHarness_C19_auto() {
	n := verifChoice("ntypes", verifParam("T")+1) // 0..T listed types
	var toks []string
	for i := 0; i < n; i++ {
		toks = append(toks, verifAcceptTokens[verifChoice("tok", len(verifAcceptTokens))])
	}
	accept := strings.Join(toks, ", ")
	req := &http.Request{Method: "GET", URL: &url.URL{Path: "/"}, Header: http.Header{}}
	if n > 0 {
		req.Header["Accept"] = []string{accept}
	}
	w := &verifWriter{hdr: http.Header{}}
	var err error
	k := verifCatch(func() { err = Auto(w, req, "s") })
	verifAssert(k == "", "Auto never panics")
	// specification: first supported media type in list order; no list => text/plain
	first := ""
	any := false
	for _, t := range toks {
		mt := t
		if p := strings.IndexByte(mt, ';'); p >= 0 {
			mt = mt[:p]
		}
		if mt == "" {
			continue
		}
		any = true
		if first == "" && (mt == "application/json" || mt == "text/html" || mt == "text/plain" || mt == "application/xml" || mt == "text/xml") {
			first = mt
		}
	}
	if !any {
		first = "text/plain"
	}
	ct := ""
	if v := w.hdr["Content-Type"]; len(v) > 0 {
		ct = v[0]
	}
	switch first {
	case "":
		verifAssert(err != nil, "no supported type listed: an error is returned")
		verifAssert(len(w.body) == 0, "nothing is written when no listed type is supported")
	case "application/json":
		verifAssert(ct == "application/json; charset=utf-8", "first supported type is JSON: rendered as JSON")
	case "text/plain":
		verifAssert(err == nil && ct == "text/plain; charset=utf-8" && string(w.body) == "s", "first supported type is text: rendered as text")
	case "application/xml", "text/xml":
		verifAssert(ct == "application/xml; charset=utf-8", "first supported type is XML: rendered as XML")
	case "text/html":
		verifAssert(err == nil, "text/html is accepted")
	}
	verifCover("C19 negotiation")
}


// History: a failed render must not leak into the next response.
func verifHarness_C19_renderHistory() {
	first := verifChoice("first", 3)  // 0 JSON, 1 JSONP, 2 XML
	second := verifChoice("second", 3)
	failFirst := verifChoice("firstFails", 2) == 1
	render := func(kind int, w *verifWriter, obj any) error {
		switch kind {
		case 0:
			return JSON(w, obj)
		case 1:
			return JSONP("cb", obj, w)
		}
		return XML(w, obj)
	}
	var obj1 any = verifPayload{N: "one"}
	verifSetGhost("err.json.Encode", failFirst)
	verifSetGhost("err.xml.Encode", failFirst)
	if failFirst && !verifSymbolic() {
		obj1 = map[string]any{"c": make(chan int)}
	}
	w1 := &verifWriter{hdr: http.Header{}}
	err1 := render(first, w1, obj1)
	verifAssert((err1 != nil) == failFirst, "the first render fails exactly when its value cannot be encoded")
	verifSetGhost("err.json.Encode", false)
	verifSetGhost("err.xml.Encode", false)
	w2 := &verifWriter{hdr: http.Header{}}
	err2 := render(second, w2, verifPayload{N: "v"})
	verifAssert(err2 == nil, "the second render succeeds")
	body := string(w2.body)
	if verifSymbolic() {
		e := "github.com/gookit/rux/pkg/render.verifPayload>"
		want := map[int]string{0: "<json:" + e, 1: "cb(<json:" + e + ");", 2: xml.Header + "<xml:" + e}[second]
		verifAssert(body == want, "the second response is exactly the rendering of its own value")
	} else {
		var back verifPayload
		switch second {
		case 0:
			verifAssert(json.Unmarshal(w2.body, &back) == nil && back.N == "v", "the second JSON response decodes to its own value")
		case 1:
			ok := strings.HasPrefix(body, "cb(") && strings.HasSuffix(body, ");")
			verifAssert(ok && json.Unmarshal([]byte(body[3:len(body)-2]), &back) == nil && back.N == "v", "the second JSONP response decodes to its own value")
		case 2:
			verifAssert(strings.Count(body, "<?xml") == 1 && xml.Unmarshal(w2.body, &back) == nil && back.N == "v", "the second XML response is one document of its own value")
		}
	}
	verifCover("C19 render history")
}
